"""Bounded stand-in for C10 (never counted as proved): generated locations x base-directory spellings x read entry
points on a real directory tree with canary files.  Oracle: a read may only succeed if the fully resolved location is a
singly linked regular file inside the fully resolved base directory, and then returns exactly that file's bytes;
everything else must raise before any byte is returned.  Also: ir.load() by any spelling gives a non-empty base dir
equal to the model's directory.  Last stdout line: JSON."""
import argparse
import io
import json
import os
import shutil
import sys
import tempfile
import time

import numpy as np
import onnx

import onnx_ir as ir
from onnx_ir import serde

ROOT = os.path.dirname(os.path.dirname(os.path.abspath(__file__)))


def build_tree():
    top = os.path.realpath(tempfile.mkdtemp(prefix="c10_"))
    base = os.path.join(top, "model")
    os.makedirs(os.path.join(base, "sub"))
    os.makedirs(os.path.join(top, "outside"))
    os.makedirs(os.path.join(top, "model_evil"))

    def w(path, seed):
        data = np.arange(seed, seed + 4, dtype=np.float32).tobytes()
        with open(path, "wb") as f:
            f.write(data)
        return data
    files = {}
    files["data.bin"] = w(os.path.join(base, "data.bin"), 1)
    files["sub/inner.bin"] = w(os.path.join(base, "sub", "inner.bin"), 10)
    w(os.path.join(top, "outside", "secret.bin"), 100)
    w(os.path.join(top, "outside", "secret2.bin"), 200)
    w(os.path.join(top, "model_evil", "x.bin"), 300)
    os.symlink("sub/inner.bin", os.path.join(base, "link_in"))
    os.symlink("../outside/secret.bin", os.path.join(base, "link_out"))
    os.symlink("../outside", os.path.join(base, "dir_out"))
    os.symlink("sub", os.path.join(base, "dir_in"))
    os.link(os.path.join(top, "outside", "secret2.bin"), os.path.join(base, "hard.bin"))
    os.symlink(base, os.path.join(top, "base_link"))
    return top, base


def expected(base_real, base_spelling_abs, location):
    """None if the read must be rejected, else the bytes that may be returned."""
    p = os.path.join(base_spelling_abs, location)
    real = os.path.realpath(p)
    inside = real == base_real or real.startswith(base_real + os.sep)
    if not inside or not os.path.isfile(real):
        return None
    if os.stat(real).st_nlink > 1:
        return None
    with open(real, "rb") as f:
        return f.read()


def entry_points():
    def via_serde(t):
        return serde.serialize_tensor(ir.LazyTensor(lambda: t, dtype=t.dtype, shape=t.shape, name="t")).raw_data

    def via_tofile(t):
        b = io.BytesIO()
        t.tofile(b)
        return b.getvalue()
    return {"numpy": lambda t: t.numpy().tobytes(), "tobytes": lambda t: bytes(t.tobytes()),
            "tofile": via_tofile, "__array__": lambda t: np.asarray(t).tobytes(), "serialize(raw)": via_serde}


def main():
    ap = argparse.ArgumentParser()
    ap.add_argument("--tier", default="quick")
    ap.add_argument("--seed", type=int, default=0)
    a = ap.parse_args()
    t0 = time.time()
    top, base = build_tree()
    cwd0 = os.getcwd()
    failures, evaluations, distinct, samples = [], 0, set(), []
    try:
        base_real = os.path.realpath(base)
        locations = ["data.bin", "./data.bin", "sub/../data.bin", "sub//inner.bin", "sub/inner.bin", "../outside/secret.bin",
                     os.path.join(top, "outside", "secret.bin"), "../model_evil/x.bin", "link_in", "link_out", "dir_out/secret.bin",
                     "dir_in/inner.bin", "hard.bin", "../model/data.bin", "sub/../../outside/secret.bin", "missing.bin",
                     "../model_evil/../model/data.bin", "/etc/hostname"]
        spellings = [("abs", base, None), ("abs/", base + os.sep, None), ("via-symlink", os.path.join(top, "base_link"), None),
                     ("relative", "model", top), ("dot", ".", base), ("dotdot", os.path.join("sub", ".."), base),
                     ("non-normalised", os.path.join(top, "outside", "..", "model"), None)]
        eps = entry_points()
        for sname, bspell, cwd in spellings:
            os.chdir(cwd or cwd0)
            bspell_abs = os.path.abspath(bspell)
            for loc in locations:
                exp = expected(base_real, bspell_abs, loc)
                for ename, ep in eps.items():
                    evaluations += 1
                    distinct.add((sname, loc, ename))
                    t = ir.ExternalTensor(loc, 0, 16, ir.DataType.FLOAT, shape=ir.Shape([4]), name="t", base_dir=bspell)
                    try:
                        got = ep(t)
                        outcome = got
                    except Exception as e:  # noqa: BLE001
                        outcome = e
                    finally:
                        try:
                            t.release()
                        except Exception:  # noqa: BLE001
                            pass
                    if exp is None:
                        if not isinstance(outcome, Exception):
                            failures.append(f"escape: base={sname} location={loc!r} via {ename}: returned {len(outcome)} bytes instead of raising")
                    else:
                        if isinstance(outcome, Exception):
                            # fail-closed: rejecting a contained file is allowed by the property (it only forbids escapes);
                            # the plain spellings must work, otherwise the harness itself is broken
                            if loc in ("data.bin", "sub/inner.bin") and sname in ("abs", "abs/"):
                                failures.append(f"harness sanity: base={sname} location={loc!r} via {ename}: raised {outcome!r}")
                        elif outcome != exp:
                            failures.append(f"wrong bytes: base={sname} location={loc!r} via {ename}")
                    if len(samples) < 6 and ename == "numpy":
                        samples.append({"base": sname, "location": loc, "must_reject": exp is None})
            os.chdir(cwd0)
        # a tensor that was read once, then re-based / file replaced, is checked again on the next read
        for second in ("link_out-rebase", "replace-file"):
            for ename, ep in eps.items():
                evaluations += 1
                t = ir.ExternalTensor("data.bin", 0, 16, ir.DataType.FLOAT, shape=ir.Shape([4]), name="t", base_dir=base)
                ep(t)
                t.release()
                if second == "link_out-rebase":
                    evil = os.path.join(top, "evil_base")
                    os.makedirs(evil, exist_ok=True)
                    if not os.path.lexists(os.path.join(evil, "data.bin")):
                        os.symlink("../outside/secret.bin", os.path.join(evil, "data.bin"))
                    t.base_dir = evil
                else:
                    os.rename(os.path.join(base, "data.bin"), os.path.join(base, "data.keep"))
                    os.symlink("../outside/secret.bin", os.path.join(base, "data.bin"))
                try:
                    got = ep(t)
                    failures.append(f"escape after a first successful read ({second}) via {ename}: returned {len(got)} bytes")
                except Exception:  # noqa: BLE001
                    pass
                finally:
                    try:
                        t.release()
                    except Exception:  # noqa: BLE001
                        pass
                    if second == "replace-file":
                        os.unlink(os.path.join(base, "data.bin"))
                        os.rename(os.path.join(base, "data.keep"), os.path.join(base, "data.bin"))
        # ir.load by several spellings of the model path
        tp = onnx.TensorProto()
        tp.name, tp.data_type = "w", 1
        tp.dims.append(4)
        tp.data_location = onnx.TensorProto.EXTERNAL
        for k, v in (("location", "../outside/secret.bin"), ("offset", "0"), ("length", "16")):
            e = tp.external_data.add()
            e.key, e.value = k, v
        att = onnx.helper.make_attribute("value", tp)
        fnode = onnx.helper.make_node("Constant", [], ["c"])
        fnode.attribute.append(att)
        fproto = onnx.helper.make_function("d", "F", [], ["c"], [fnode], [onnx.helper.make_opsetid("", 18)])
        def ext(name):
            t2 = onnx.TensorProto()
            t2.CopyFrom(tp)
            t2.name = name
            return t2

        def const(name, out):
            n = onnx.helper.make_node("Constant", [], [out], name=name)
            n.attribute.append(onnx.helper.make_attribute("value", ext(name + "_t")))
            return n
        # every carrier: main-graph node attribute (TENSOR and TENSORS), subgraph initializer / node attribute at depth 1 and 2
        deep = onnx.helper.make_graph([const("deep_const", "dc"), onnx.helper.make_node("Add", ["dc", "dw"], ["d_out"])], "deep", [],
                                      [onnx.helper.make_tensor_value_info("d_out", 1, [4])], initializer=[ext("dw")])
        inner_if = onnx.helper.make_node("If", ["cnd"], ["i_out"], name="inner_if", then_branch=deep, else_branch=deep)
        branch = onnx.helper.make_graph([const("branch_const", "bc"), inner_if, onnx.helper.make_node("Add", ["bc", "bw"], ["b0"]),
                                         onnx.helper.make_node("Add", ["b0", "i_out"], ["b_out"])], "branch", [],
                                        [onnx.helper.make_tensor_value_info("b_out", 1, [4])], initializer=[ext("bw")])
        multi = onnx.helper.make_node("Custom", [], ["m_out"], name="multi", domain="d")
        multi.attribute.append(onnx.helper.make_attribute("tensors", [ext("ts0"), ext("ts1")]))
        cnd = onnx.helper.make_tensor("cnd", onnx.TensorProto.BOOL, [], [True])
        g = onnx.helper.make_graph([onnx.helper.make_node("Identity", ["w"], ["y"]), const("main_const", "mc"), multi,
                                    onnx.helper.make_node("If", ["cnd"], ["r"], name="outer_if", then_branch=branch, else_branch=branch)], "g", [],
                                   [onnx.helper.make_tensor_value_info("y", 1, [4])], initializer=[tp, cnd])
        mp = onnx.helper.make_model(g, functions=[fproto], opset_imports=[onnx.helper.make_opsetid("", 18), onnx.helper.make_opsetid("d", 1)])
        onnx.save(mp, os.path.join(base, "model.onnx"))
        for sname, spath, cwd in (("bare", "model.onnx", base), ("./", "./model.onnx", base), ("abs", os.path.join(base, "model.onnx"), None),
                                  ("relative", os.path.join("model", "model.onnx"), top), ("via-symlink", os.path.join(top, "base_link", "model.onnx"), None)):
            os.chdir(cwd or cwd0)
            evaluations += 1
            distinct.add(("load", sname))
            m = ir.load(spath)
            tensors = []

            def collect(gr):
                for v in gr.initializers.values():
                    if v.const_value is not None:
                        tensors.append(v.const_value)
                for n in gr:
                    for at in n.attributes.values():
                        if at.type == ir.AttributeType.TENSOR:
                            tensors.append(at.value)
                        elif at.type == ir.AttributeType.TENSORS:
                            tensors.extend(at.value)
                        elif at.type == ir.AttributeType.GRAPH:
                            collect(at.value)
                        elif at.type == ir.AttributeType.GRAPHS:
                            for sg in at.value:
                                collect(sg)
            collect(m.graph)
            for f in m.functions.values():
                collect(f.graph if hasattr(f, "graph") else f._graph)
            if sum(isinstance(t, ir.ExternalTensor) for t in tensors) < 9:
                failures.append(f"load({sname}): the harness found only {len(tensors)} tensors (expected external tensors at 9+ positions)")
            for t in tensors:
                bd = os.fspath(t.base_dir) if isinstance(t, ir.ExternalTensor) else None
                if isinstance(t, ir.ExternalTensor):
                    if not bd or os.path.realpath(bd) != base_real:
                        failures.append(f"load({sname}): tensor {t.name!r} got base_dir {bd!r}, not the model directory")
                    try:
                        t.numpy()
                        failures.append(f"load({sname}): tensor {t.name!r} with location '../outside/secret.bin' was read")
                    except Exception:  # noqa: BLE001
                        pass
            os.chdir(cwd0)
    finally:
        os.chdir(cwd0)
        shutil.rmtree(top, ignore_errors=True)
    known = {}
    kf = os.path.join(ROOT, "known_findings.json")
    if os.path.exists(kf):
        for k in json.load(open(kf)).get("open", []):
            if k.get("property") == "C10" and k.get("key"):
                known[k["key"]] = k
    new, known_lines = [], []
    for f in failures:
        hit = next((k for key, k in known.items() if key in f), None)
        if hit:
            if hit["what"] not in known_lines:
                known_lines.append(hit["what"])
        else:
            new.append(f)
    out = {"status": "violation" if new else "ok", "evaluations": evaluations, "distinct_nontrivial": len(distinct),
           "rule": "18 locations (., .., //, absolute, prefix sibling, symlink in/out, symlinked dir in/out, hard link, missing) x 7 base "
                   "spellings x 5 read entry points + re-read after re-base/replace + ir.load by 5 spellings; bounded, not a proof",
           "known_findings": known_lines, "samples": samples, "failures": new[:20], "wall_s": round(time.time() - t0, 2)}
    if new:
        os.makedirs(os.path.join(ROOT, "out", "replay"), exist_ok=True)
        path = os.path.join(ROOT, "out", "replay", "C10_bounded.json")
        json.dump({"property": "C10", "kind": "script",
                   "script": "import subprocess, sys, json\nr = subprocess.run([sys.executable, %r, '--tier', %r], capture_output=True, text=True)\n"
                             "d = json.loads(r.stdout.strip().splitlines()[-1])\nVIOLATED = d['status'] == 'violation'\nDETAIL = '\\n'.join(d.get('failures', []))\n"
                             % (os.path.abspath(__file__), a.tier), "failures": new[:20]}, open(path, "w"), indent=1)
        out["replay"] = path
    print(json.dumps(out))


if __name__ == "__main__":
    main()
