"""Bounded stand-ins for C02 and C03 (never counted as proved).
--prop C02: generated well-formed protos (rt/protogen.py: all attribute kinds but sparse, element types x storage fields, nested types with
            shapes/denotations, subgraphs capturing outer values, functions with overloads and reference attributes, metadata on every
            carrier, IR versions 3..13) plus the hand-written models; to_proto(from_proto(p)) must equal p field by field up to the
            normalisations named in the statement; every deserialize_*/serialize_* leaf pair is exercised on the sub-messages too.
--prop C03: IR models obtained from those protos and then edited through the public API (reordered nodes, stripped types, optional
            outputs, swapped tensor implementations, shared tensors, renamed values); to_proto leaves a deep snapshot of the IR unchanged
            except tensor-name alignment, two serializations are equal, from_proto(to_proto(m)) is structurally isomorphic to m.
Last stdout line: JSON."""
import argparse
import json
import logging
import os
import random
import sys
import time
import warnings

import numpy as np
import onnx

sys.path.insert(0, os.path.dirname(os.path.abspath(__file__)))
import onnx_ir as ir  # noqa: E402
from onnx_ir import serde  # noqa: E402

import models  # noqa: E402
import protogen  # noqa: E402

logging.disable(logging.CRITICAL)
warnings.simplefilter("ignore")
ROOT = os.path.dirname(os.path.dirname(os.path.abspath(__file__)))
UNORDERED = {"opset_import", "value_info", "metadata_props"}
DOMAIN_FIELDS = {("NodeProto", "domain"), ("OperatorSetIdProto", "domain"), ("FunctionProto", "domain")}


_ORIG_VI = {}        # graph path -> names that had a value_info entry in the ORIGINAL proto (see canon)


def canon(msg, path="", role=None):
    """Canonical python form of a message under the statement's normalisations.
    role="orig": record, per graph, which names carry a value_info entry; role="back": value_info entries of initializers that
    the original did not have are dropped ("value-info is added for initializers"), every other entry is compared - so an
    initializer's own value-info (type / dimension denotations, doc string, metadata) must survive."""
    tname = msg.DESCRIPTOR.name
    out = {}
    oneofs = {o.name: msg.WhichOneof(o.name) for o in msg.DESCRIPTOR.oneofs if not o.name.startswith("_")}
    if oneofs:
        out["$oneof"] = oneofs
    for fd in msg.DESCRIPTOR.fields:
        v = getattr(msg, fd.name)
        if fd.is_repeated:
            if fd.type == fd.TYPE_MESSAGE:
                items = [canon(x, f"{path}/{fd.name}[{i}]", role) for i, x in enumerate(v)]
                if fd.name in UNORDERED or (tname == "TensorProto" and fd.name == "external_data"):
                    items = sorted(items, key=repr)
                out[fd.name] = items
            else:
                items = list(v)
                if tname == "NodeProto" and fd.name == "output":
                    while items and items[-1] == "":
                        items.pop()
                out[fd.name] = [x if x == x else "nan" for x in items]
        elif fd.type == fd.TYPE_MESSAGE:
            out[fd.name] = canon(v, f"{path}/{fd.name}", role) if msg.HasField(fd.name) else None
        else:
            if (tname, fd.name) in DOMAIN_FIELDS and v == "ai.onnx":
                v = ""
            out[fd.name] = v if v == v else "nan"
    if tname == "GraphProto":
        inits = {t.name for t in msg.initializer}
        referenced = {x for n in msg.node for x in list(n.input) + list(n.output) if x} | {o.name for o in msg.output} | {i.name for i in msg.input}
        if role == "orig":
            _ORIG_VI[path] = {c["name"] for c in out["value_info"]}
        had = _ORIG_VI.get(path, set()) if role == "back" else None
        out["value_info"] = [c for c in out["value_info"] if c["name"] in referenced and
                             (c["name"] not in inits or (role == "orig") or (role == "back" and c["name"] in had))]
        if role is None:
            out["value_info"] = [c for c in out["value_info"] if c["name"] not in inits]
    return out


def first_diff(a, b, path=""):
    if type(a) is not type(b):
        return f"{path}: {a!r} vs {b!r}"
    if isinstance(a, dict):
        for k in a:
            if k not in b:
                return f"{path}/{k}: missing"
            d = first_diff(a[k], b[k], f"{path}/{k}")
            if d:
                return d
        return None
    if isinstance(a, list):
        if len(a) != len(b):
            return f"{path}: {len(a)} vs {len(b)} entries ({short(a)} vs {short(b)})"
        for i, (x, y) in enumerate(zip(a, b)):
            d = first_diff(x, y, f"{path}[{i}]")
            if d:
                return d
        return None
    return None if a == b else f"{path}: {a!r} vs {b!r}"


def short(x):
    s = repr(x)
    return s if len(s) < 160 else s[:160] + "..."


def classify(diff):
    """stable key of a difference: the field path without indices."""
    import re
    return re.sub(r"\[\d+\]", "[]", diff.split(":")[0])


# ------------------------------------------------------------------------------------------------ C02
def run_c02(a, rnd, failures, stats):
    n = 220 if a.tier == "quick" else 2500
    protos = [(f"model:{k}", mk()) for k, mk in list(models.ALL.items()) + list(models.SERDE_EXTRA.items())]
    protos += [(f"gen#{i}/ir{irv}", p) for i, (irv, p) in enumerate(protogen.models(rnd, n))]
    for label, p in protos:
        stats["evaluations"] += 1
        stats["distinct"].add(p.SerializeToString(deterministic=True))
        try:
            m = ir.from_proto(p)
            q = ir.to_proto(m)
        except Exception as e:  # noqa: BLE001
            failures.append(f"{label}: round trip raised {type(e).__name__}: {str(e)[:200]}")
            continue
        _ORIG_VI.clear()
        d = first_diff(canon(p, role="orig"), canon(q, role="back"))
        if d:
            failures.append(f"{label}: proto -> IR -> proto differs at {d}"[:420])
        # leaf pairs on sub-messages
        for sub_label, sub in leaf_messages(p):
            stats["evaluations"] += 1
            try:
                if isinstance(sub, onnx.TypeProto):
                    ty, sh = serde.deserialize_type_proto_for_type(sub), serde.deserialize_type_proto_for_shape(sub)
                    back = onnx.TypeProto()
                    if ty is not None:
                        serde.serialize_type_into(back, ty)
                    if sh is not None:
                        serde.serialize_shape_into(back, sh)
                else:
                    obj = serde.from_proto(sub)
                    back = serde.to_proto(obj)
            except Exception as e:  # noqa: BLE001
                failures.append(f"{label}:{sub_label}: leaf round trip raised {type(e).__name__}: {str(e)[:160]}")
                continue
            if type(back) is not type(sub):
                continue
            d = first_diff(canon(sub), canon(back))
            if d:
                failures.append(f"{label}:{sub_label}: leaf round trip differs at {d}"[:420])


def leaf_messages(p):
    out = []
    for g in all_graphs(p.graph):
        for i, t in enumerate(g.initializer[:2]):
            out.append((f"tensor[{i}]", t))
        for i, vi in enumerate(list(g.input)[:2]):
            if vi.HasField("type"):
                out.append((f"type[{i}]", vi.type))
        for n in g.node[:3]:
            for a in n.attribute:
                if a.type not in (onnx.AttributeProto.GRAPH, onnx.AttributeProto.GRAPHS) and not a.ref_attr_name:
                    out.append((f"attr:{a.name}", a))
    return out[:12]


def all_graphs(g):
    yield g
    for n in g.node:
        for a in n.attribute:
            if a.HasField("g"):
                yield from all_graphs(a.g)
            for sg in a.graphs:
                yield from all_graphs(sg)


# ------------------------------------------------------------------------------------------------ C03
def ir_graphs(model):
    out, seen = [], set()

    def walk(g):
        if id(g) in seen:
            return
        seen.add(id(g))
        out.append(g)
        for n in g:
            for at in n.attributes.values():
                if at.is_ref():
                    continue
                if at.type == ir.AttributeType.GRAPH:
                    walk(at.value)
                elif at.type == ir.AttributeType.GRAPHS:
                    for s in at.value:
                        walk(s)
    walk(model.graph)
    for f in model.functions.values():
        walk(f.graph)
    return out


def tensor_sig(t):
    if t is None:
        return None
    try:
        data = bytes(t.tobytes()) if not isinstance(t, ir.ExternalTensor) else ("external", str(t.location), t.offset, t.length)
    except Exception as e:  # noqa: BLE001
        data = ("unreadable", type(e).__name__)
    return (t.name, t.dtype, tuple(t.shape.dims) if hasattr(t.shape, "dims") else tuple(t.shape), data, t.doc_string or "",
            tuple(sorted((t.metadata_props or {}).items())))


def attr_sig(a, vid, gsig):
    if a.is_ref():
        return ("ref", a.name, a.type, a.ref_attr_name, a.doc_string or "")
    v = a.value
    if a.type == ir.AttributeType.GRAPH:
        v = gsig(v)
    elif a.type == ir.AttributeType.GRAPHS:
        v = tuple(gsig(x) for x in v)
    elif a.type == ir.AttributeType.TENSOR:
        v = tensor_sig(v)
    elif a.type == ir.AttributeType.TENSORS:
        v = tuple(tensor_sig(x) for x in v)
    elif a.type in (ir.AttributeType.TYPE_PROTO,):
        v = (repr(v.type), repr(v.shape))
    elif a.type in (ir.AttributeType.TYPE_PROTOS,):
        v = tuple((repr(x.type), repr(x.shape)) for x in v)
    elif isinstance(v, (list, tuple)):
        v = tuple(v)
    return ("attr", a.name, a.type, v, a.doc_string or "")


def model_sig(model, with_tensor_names=True):
    """Structural signature through public accessors: identity of values becomes first-occurrence numbering."""
    ids = {}

    def vid(v):
        if v is None:
            return None
        return ids.setdefault(id(v), len(ids))

    def vsig(v):
        den = tuple(v.shape.get_denotation(i) for i in range(len(v.shape))) if v.shape is not None else None
        ct = tensor_sig(v.const_value)
        if ct is not None and not with_tensor_names:
            ct = ct[1:]
        return (vid(v), v.name, repr(v.type), None if v.shape is None else tuple(str(d) for d in v.shape), den, ct, v.doc_string or "",
                tuple(sorted(v.metadata_props.items())))

    def gsig(g):
        return ("graph", g.name, g.doc_string or "", tuple(vsig(v) for v in g.inputs), tuple(vsig(v) for v in g.outputs),
                tuple(sorted((k, vsig(v)) for k, v in g.initializers.items())), tuple(sorted(g.opset_imports.items())) if hasattr(g, "opset_imports") else (),
                tuple(sorted(g.metadata_props.items())),
                tuple((n.name, n.domain, n.op_type, n.overload, tuple(vid(i) for i in n.inputs), tuple(vsig(o) for o in trim(n.outputs)),
                       tuple(attr_sig(a, vid, gsig) for a in n.attributes.values()), n.doc_string or "", tuple(sorted(n.metadata_props.items())),
                       devsig(n) if model.ir_version >= 11 else None) for n in g))

    def devsig(n):
        out = []
        for c in getattr(n, "device_configurations", ()) or ():
            out.append((repr(c.configuration), c.pipeline_stage,
                        tuple((vid(s.value), getattr(s.value, "name", None), s.device, repr(s.index_to_device_group_map), repr(s.sharded_dims)) for s in c.sharding_specs)))
        return tuple(out)

    def trim(outs):
        outs = list(outs)
        while outs and not outs[-1].name and not outs[-1].uses() and not outs[-1].is_graph_output():
            outs.pop()
        return outs
    fs = tuple((k, f.name, f.domain, f.overload, f.doc_string or "", tuple(sorted(f.opset_imports.items())), tuple(f.attributes.keys()) if hasattr(f.attributes, "keys") else (),
                gsig(f.graph), tuple(sorted(f.metadata_props.items()))) for k, f in model.functions.items())
    return (model.ir_version, model.producer_name, model.producer_version, model.domain, model.model_version, model.doc_string,
            tuple(sorted(model.metadata_props.items())), tuple(sorted(model.opset_imports.items())), gsig(model.graph), fs,
            repr(getattr(model, "device_configurations", None)) if model.ir_version >= 11 else None)


def deep_state(model):
    """Everything reachable through private fields that an edit could change (ids of containers and their contents)."""
    st = []
    for g in ir_graphs(model):
        st.append(("g", id(g), g.name, [id(x) for x in g.inputs], [id(x) for x in g.outputs], [(k, id(v)) for k, v in g.initializers.items()],
                   [id(n) for n in g], dict(g.metadata_props), g.doc_string))
        vals = list(g.inputs) + list(g.initializers.values())
        for n in g:
            st.append(("n", id(n), n.name, n.domain, n.op_type, n.overload, [id(i) if i is not None else None for i in n.inputs], [id(o) for o in n.outputs],
                       [(k, id(a), repr(a.type)) for k, a in n.attributes.items()], dict(n.metadata_props), n.doc_string))
            vals += list(n.outputs)
        for v in vals:
            st.append(("v", id(v), v.name, repr(v.type), repr(v.shape), id(v.const_value) if v.const_value is not None else None, v.doc_string,
                       dict(v.metadata_props), [(id(u.node), u.idx) for u in v.uses()], id(v.producer()) if v.producer() is not None else None,
                       v.is_graph_input(), v.is_graph_output(), v.is_initializer()))
            if v.const_value is not None:
                t = v.const_value
                st.append(("t", id(t), type(t).__name__, t.dtype, repr(t.shape), t.doc_string, dict(t.metadata_props or {})))
    return st


def edits(model, rnd):
    """A seeded public-API edit history; returns the labels applied."""
    labels = []
    graphs = ir_graphs(model)
    for g in graphs:
        nodes = list(g)
        ops = rnd.sample(["reverse", "strip-type", "rename", "share-tensor", "swap-tensor-impl", "empty-output", "add-node", "metadata", "lazy"], rnd.randint(1, 4))
        for op in ops:
            try:
                if op == "reverse" and len(nodes) >= 2:
                    g.remove(nodes)
                    g.extend(list(reversed(nodes)))           # unsorted node order
                elif op == "strip-type":
                    for n in nodes[:2]:
                        for o in n.outputs:
                            o.type = None
                            o.shape = None
                elif op == "rename":
                    for n in nodes[:2]:
                        for o in n.outputs:
                            if o.name:
                                o.name = o.name + "_r"
                elif op == "share-tensor" and len(g.initializers) >= 2:
                    vs = list(g.initializers.values())
                    vs[1].const_value = vs[0].const_value      # two initializers backed by one tensor object
                elif op == "swap-tensor-impl" and g.initializers:
                    v = next(iter(g.initializers.values()))
                    v.const_value = ir.Tensor(np.arange(6, dtype=np.float32).reshape(2, 3), name="other_name")
                elif op == "lazy" and g.initializers:
                    v = list(g.initializers.values())[-1]
                    v.const_value = ir.LazyTensor(lambda: ir.Tensor(np.ones((2,), dtype=np.int64)), dtype=ir.DataType.INT64, shape=ir.Shape([2]), name="lazy_name")
                elif op == "empty-output" and nodes:
                    n = nodes[-1]
                    n.resize_outputs(len(n.outputs) + 1)
                    n.outputs[-1].name = ""
                elif op == "add-node" and nodes:
                    src = next((o for n0 in nodes for o in n0.outputs if o.name), None)      # a value must be named to be referenced
                    if src is None:
                        continue
                    extra = ir.Node("custom.domain", "Extra", [src, None], num_outputs=2, name=None, attributes=[ir.AttrInt64("k", 3), ir.AttrStrings("ss", ["a", "b"])])
                    g.append(extra)
                elif op == "metadata":
                    g.metadata_props["edited"] = "yes"
                    for n in nodes[:1]:
                        n.metadata_props["edited"] = "1"
                        n.doc_string = "edited doc"
                else:
                    continue
                labels.append(f"{g.name}:{op}")
            except Exception:  # noqa: BLE001   (an edit rejected by the API is simply not part of the history)
                continue
    return labels


def run_c03(a, rnd, failures, stats):
    n = 160 if a.tier == "quick" else 1500
    protos = [(f"model:{k}", mk()) for k, mk in list(models.ALL.items()) + list(models.SERDE_EXTRA.items())]
    protos += [(f"gen#{i}/ir{irv}", p) for i, (irv, p) in enumerate(protogen.models(rnd, n))]
    for label, p in protos:
        for variant in ("as-loaded", "edited"):
            stats["evaluations"] += 1
            try:
                m = ir.from_proto(p)
            except Exception:  # noqa: BLE001   (C02's business)
                continue
            hist = edits(m, rnd) if variant == "edited" else []
            tag = f"{label} [{variant}: {', '.join(hist[:6])}]"
            stats["distinct"].add((label, tuple(hist)))
            try:
                before = deep_state(m)
                sig_before = model_sig(m, with_tensor_names=False)
                p1 = ir.to_proto(m)
            except Exception:  # noqa: BLE001   (a model the serializer rejects is outside the statement)
                continue
            after = deep_state(m)
            if before != after:
                d = next((f"{x} -> {y}" for x, y in zip(before, after) if x != y), "length differs")
                failures.append(f"{tag}: to_proto changed the IR model: {d}"[:420])
            if model_sig(m, with_tensor_names=False) != sig_before:
                failures.append(f"{tag}: to_proto changed what the public accessors report")
            shared = {}
            for g in ir_graphs(m):
                for k, v in g.initializers.items():
                    if v.const_value is not None:
                        shared.setdefault(id(v.const_value), []).append(v)
            for vs in shared.values():
                # a tensor object backing several initializers can only carry one of their names
                if len(vs) == 1 and vs[0].const_value.name != vs[0].name:
                    failures.append(f"{tag}: after to_proto initializer {vs[0].name!r} holds a tensor named {vs[0].const_value.name!r}")
            try:
                p2 = ir.to_proto(m)
            except Exception as e:  # noqa: BLE001
                failures.append(f"{tag}: second serialization raised {e!r}"[:300])
                continue
            if p1.SerializeToString(deterministic=True) != p2.SerializeToString(deterministic=True):
                failures.append(f"{tag}: serializing twice gives different protos: {first_diff(canon(p1), canon(p2))}"[:420])
            try:
                m2 = ir.from_proto(p1)
            except Exception as e:  # noqa: BLE001
                failures.append(f"{tag}: the serialized model does not deserialize: {type(e).__name__}: {str(e)[:200]}")
                continue
            s1, s2 = model_sig(m, with_tensor_names=False), model_sig(m2, with_tensor_names=False)
            if s1 != s2:
                failures.append(f"{tag}: IR -> proto -> IR is not isomorphic: {sig_diff(s1, s2)}"[:520])
    for label, m in api_models():
        stats["evaluations"] += 1
        stats["distinct"].add((label, ()))
        try:
            s1 = model_sig(m, with_tensor_names=False)
            m2 = ir.from_proto(ir.to_proto(m))
            s2 = model_sig(m2, with_tensor_names=False)
        except Exception as e:  # noqa: BLE001
            failures.append(f"{label}: round trip raised {type(e).__name__}: {str(e)[:200]}")
            continue
        if s1 != s2:
            failures.append(f"{label}: IR -> proto -> IR is not isomorphic: {sig_diff(s1, s2)}"[:520])



def api_models():
    """IR models built through the public API only (never by from_proto), so that a defect of the deserializer cannot hide
    on both sides of the comparison: inner scopes whose own values carry the name of an outer value."""
    out = []
    F32 = ir.TensorType(ir.DataType.FLOAT)

    def val(name, shape=(2, 3)):
        return ir.Value(name=name, type=F32, shape=ir.Shape(list(shape)))

    def node(op, inputs, out_name, attrs=(), name=None):
        n = ir.Node("", op, inputs=list(inputs), num_outputs=1, attributes=list(attrs), name=name or f"n_{out_name}")
        n.outputs[0].name = out_name
        n.outputs[0].type = F32
        n.outputs[0].shape = ir.Shape([2, 3])
        return n

    for variant in ("body-input", "branch-local", "two-levels"):
        x = val("x")
        outer_h = node("Relu", [x], "h")
        if variant == "body-input":
            h_in = val("h")                                     # the body's own input, same name as the outer value
            neg = node("Neg", [h_in], "h_next")
            inner = ir.Graph([h_in], [neg.outputs[0]], nodes=[neg], name="body")
            ctl = node("Loop", [x], "r", attrs=[ir.AttrGraph("body", inner)])
        elif variant == "branch-local":
            local = node("Sub", [x, x], "h", name="local_h")    # a node output named like the outer value
            use = node("Abs", [local.outputs[0]], "b_out")
            inner = ir.Graph([], [use.outputs[0]], nodes=[local, use], name="branch")
            ctl = node("If", [x], "r", attrs=[ir.AttrGraph("then_branch", inner)])
        else:
            local = node("Sub", [x, x], "h", name="local_h")
            deep_use = node("Abs", [local.outputs[0]], "d_out")
            deep = ir.Graph([], [deep_use.outputs[0]], nodes=[deep_use], name="deep")
            holder = node("If", [x], "hold", attrs=[ir.AttrGraph("then_branch", deep)])
            inner = ir.Graph([], [holder.outputs[0]], nodes=[local, holder], name="branch")
            ctl = node("If", [x], "r", attrs=[ir.AttrGraph("then_branch", inner)])
        fin = node("Add", [outer_h.outputs[0], ctl.outputs[0]], "y")
        g = ir.Graph([x], [fin.outputs[0]], nodes=[outer_h, ctl, fin], name="main", opset_imports={"": 18})
        out.append((f"api:shadowing/{variant}", ir.Model(g, ir_version=10)))
    # denotations on a NON-input initializer (type and dimensions), whose dims/dtype agree with its tensor
    x = val("x")
    w = ir.Value(name="w", type=ir.TensorType(ir.DataType.FLOAT, denotation="TENSOR"),
                 shape=ir.Shape([2, 3], denotations=("FILTER_OUT_CHANNEL", "FILTER_IN_CHANNEL")),
                 const_value=ir.tensor(np.ones((2, 3), dtype=np.float32), name="w"))
    add = node("Add", [x, w], "y")
    add.outputs[0].type = ir.TensorType(ir.DataType.FLOAT, denotation="IMAGE")
    add.outputs[0].shape = ir.Shape([2, 3], denotations=("DATA_BATCH", None))
    g = ir.Graph([x], [add.outputs[0]], nodes=[add], initializers=[w], name="main", opset_imports={"": 18})
    out.append(("api:denotations-on-initializer", ir.Model(g, ir_version=10)))
    # a typed node output that stops being a graph output through `del graph.outputs[i]` (every index spelling) keeps its value info
    for idx in (-1, 1, 0, -2):
        x = val("x")
        a = node("Relu", [x], "a")
        b = node("Neg", [a.outputs[0]], "b")
        for o, doc in ((a.outputs[0], "first"), (b.outputs[0], "second")):
            o.doc_string = doc
            o.metadata_props["k"] = doc
        g = ir.Graph([x], [a.outputs[0], b.outputs[0]], nodes=[a, b], name="main", opset_imports={"": 18})
        del g.outputs[idx]
        out.append((f"api:del-output[{idx}]", ir.Model(g, ir_version=10)))
    return out


def sig_diff(a, b, path="model"):
    if type(a) is not type(b) or not isinstance(a, tuple):
        return None if a == b else f"{path}: {short(a)} vs {short(b)}"
    if len(a) != len(b):
        return f"{path}: {len(a)} vs {len(b)} items: {short(a)} vs {short(b)}"
    for i, (x, y) in enumerate(zip(a, b)):
        d = sig_diff(x, y, f"{path}.{i}")
        if d:
            return d
    return None


def main():
    ap = argparse.ArgumentParser()
    ap.add_argument("--tier", default="quick")
    ap.add_argument("--seed", type=int, default=0)
    ap.add_argument("--prop", default="C02")
    a = ap.parse_args()
    t0 = time.time()
    rnd = random.Random(a.seed)
    failures = []
    stats = {"evaluations": 0, "distinct": set()}
    (run_c02 if a.prop == "C02" else run_c03)(a, rnd, failures, stats)
    uniq, seen = [], set()
    for f in failures:
        tail = f.split(": ", 1)[-1]
        k = classify(tail.split(" at ", 1)[-1]) if " at " in tail else tail[:70]
        if k not in seen:
            seen.add(k)
            uniq.append(f)
    known = {}
    kf = os.path.join(ROOT, "known_findings.json")
    if os.path.exists(kf):
        for k in json.load(open(kf)).get("open", []):
            if k.get("property") == a.prop and k.get("key"):
                known[k["key"]] = k
    new, known_lines = [], []
    for f in uniq:
        hit = next((k for key, k in known.items() if key in f), None)
        if hit:
            if hit["what"] not in known_lines:
                known_lines.append(hit["what"])
        else:
            new.append(f)
    rule = ("5 hand-written models + seeded generated protos (rt/protogen.py, IR versions 3..13 cycled); distinct = distinct protos; every "
            "model also exercises up to 12 leaf messages; bounded, not a proof") if a.prop == "C02" else \
           ("each proto as loaded and after a seeded public-API edit history (<= 4 kinds of edit per graph); distinct = (proto, history); bounded, not a proof")
    out = {"status": "violation" if new else "ok", "evaluations": stats["evaluations"], "distinct_nontrivial": len(stats["distinct"]), "rule": rule,
           "known_findings": known_lines, "samples": [], "failures": new[:15], "wall_s": round(time.time() - t0, 2)}
    if new:
        os.makedirs(os.path.join(ROOT, "out", "replay"), exist_ok=True)
        path = os.path.join(ROOT, "out", "replay", f"{a.prop}_bounded.json")
        json.dump({"property": a.prop, "kind": "script",
                   "script": "import subprocess, sys, json\nr = subprocess.run([sys.executable, %r, '--prop', %r, '--tier', %r, '--seed', %r], capture_output=True, text=True)\n"
                             "d = json.loads(r.stdout.strip().splitlines()[-1])\nVIOLATED = d['status'] == 'violation'\nDETAIL = '\\n'.join(d.get('failures', []))\n"
                             % (os.path.abspath(__file__), a.prop, a.tier, str(a.seed)), "failures": new[:15]}, open(path, "w"), indent=1)
        out["replay"] = path
    print(json.dumps(out))


if __name__ == "__main__":
    main()
