"""Bounded stand-in for C18 (never counted as proved).
(a) extract(): every small main graph (<= 4 nodes over 2 graph inputs + 1 initializer, one node optionally owning a nested
    body that captures outer values, optionally a body nested two deep), every cut (inputs subset, 1-2 outputs) given by
    object and by name, on Graph / GraphView / Function.  Oracle = the statement: brute-force backward reachability (through
    captures of nested bodies) gives the needed nodes; result has exactly those nodes in original order, exactly the needed
    initializers, shares no node/value/graph object with the source, and the symbolic term of each output (an uninterpreted
    term algebra over the boundary inputs = "evaluated on the source's values") equals the source's term; a needed
    non-initializer value not covered by the inputs => ValueError.
(b) analyze_implicit_usage(): for every nested graph exactly the values used inside it or deeper that are defined outside.
Last stdout line: JSON."""
import argparse
import itertools
import json
import os
import random
import sys
import time

import onnx_ir as ir

ROOT = os.path.dirname(os.path.dirname(os.path.abspath(__file__)))


def build(spec, kind="graph"):
    """spec = (n, wiring, body) ; wiring[i] = tuple of source labels for node i's inputs, labels: 'x0','x1','w', 'n<j>' (j < i)
    body = None | (owner, captures, deep) : node `owner` gets attribute graph whose nodes use the captured labels."""
    n, wiring, body = spec
    vals = {}
    x0 = ir.Value(name="x0", type=ir.TensorType(ir.DataType.FLOAT), shape=ir.Shape([1]))
    x1 = ir.Value(name="x1", type=ir.TensorType(ir.DataType.FLOAT), shape=ir.Shape([1]))
    w = ir.Value(name="w", const_value=ir.tensor([1.0], name="w"), type=ir.TensorType(ir.DataType.FLOAT), shape=ir.Shape([1]))
    w2 = ir.Value(name="w2", const_value=ir.tensor([2.0], name="w2"), type=ir.TensorType(ir.DataType.FLOAT), shape=ir.Shape([1]))
    vals.update(x0=x0, x1=x1, w=w, w2=w2)
    nodes = []
    for i in range(n):
        ins = [vals[l] if l is not None else None for l in wiring[i]]
        attrs = []
        if body is not None and body[0] == i:
            _, caps, deep = body
            b_in = ir.Value(name=f"b_in{i}")
            inner = ir.Node("", "Inner", inputs=[b_in] + [vals[c] for c in caps], num_outputs=1, name=f"b{i}_0")
            inner.outputs[0].name = f"b{i}_0_o"
            bnodes = [inner]
            if deep:
                dn = ir.Node("", "Deep", inputs=[vals[c] for c in deep] + [inner.outputs[0]], num_outputs=1, name=f"d{i}_0")
                dn.outputs[0].name = f"d{i}_0_o"
                dg = ir.Graph([], [dn.outputs[0]], nodes=[dn], name=f"deep{i}")
                holder = ir.Node("", "Holder", inputs=[], num_outputs=1, name=f"b{i}_1", attributes=[ir.AttrGraph("body", dg)])
                holder.outputs[0].name = f"b{i}_1_o"
                bnodes.append(holder)
            bg = ir.Graph([b_in], [bnodes[-1].outputs[0]], nodes=bnodes, name=f"body{i}")
            attrs.append(ir.AttrGraph("body", bg))
        nd = ir.Node("", f"Op{i}", inputs=ins, num_outputs=2 if i == 0 else 1, name=f"n{i}", attributes=attrs)
        for k, o in enumerate(nd.outputs):
            o.name = f"n{i}" if k == 0 else f"n{i}_{k}"
            vals[o.name] = o
        nodes.append(nd)
    outs = [nodes[-1].outputs[0]] if nodes else [x0]
    if kind == "function":
        g = ir.Graph([x0, x1, w, w2], outs, nodes=nodes, name="g")
        f = ir.Function("d", "f", graph=g, attributes=[])
        return f, g, vals, nodes
    g = ir.Graph([x0, x1], outs, nodes=nodes, initializers=[w, w2], name="g")
    if kind == "view":
        gv = ir.GraphView([x0, x1], outs, nodes=nodes, initializers=[w, w2], name="g")
        return gv, g, vals, nodes
    return g, g, vals, nodes


def captures(node, parent):
    """values of `parent` used (at any depth) inside the nested graphs of `node`."""
    out = []

    def walk(g):
        for nd in g:
            for v in nd.inputs:
                if v is not None and v.graph is parent:
                    out.append(v)
            for a in nd.attributes.values():
                if a.type == ir.AttributeType.GRAPH:
                    walk(a.as_graph())
                elif a.type == ir.AttributeType.GRAPHS:
                    for s in a.as_graphs():
                        walk(s)
    for a in node.attributes.values():
        if a.type == ir.AttributeType.GRAPH:
            walk(a.as_graph())
        elif a.type == ir.AttributeType.GRAPHS:
            for s in a.as_graphs():
                walk(s)
    return out


def oracle(g, nodes, in_vals, out_vals, is_function):
    needed_nodes, needed_vals, seen = set(), set(), set()
    inset = {id(v) for v in in_vals}
    st = list(out_vals)
    while st:
        v = st.pop()
        if id(v) in seen:
            continue
        seen.add(id(v))
        if id(v) in inset:
            continue
        p = v.producer()
        if p is None:
            needed_vals.add(id(v))
            continue
        if id(p) not in needed_nodes:
            needed_nodes.add(id(p))
            for i in p.inputs:
                if i is not None:
                    st.append(i)
            st.extend(captures(p, g))
    return needed_nodes, needed_vals


def term(v, leaves, memo, src_graph):
    """uninterpreted term of a value over boundary leaves (by name)."""
    if v is None:
        return None
    if v.name in leaves:
        return ("leaf", v.name)
    k = id(v)
    if k in memo:
        return memo[k]
    p = v.producer()
    if p is None:
        if v.const_value is not None:
            t = ("const", v.name, bytes(v.const_value.tobytes()))
        else:
            t = ("free", v.name)
    else:
        sub = []
        for a in p.attributes.values():
            if a.type == ir.AttributeType.GRAPH:
                sub.append((a.name, graph_term(a.as_graph(), leaves, memo, src_graph)))
        t = ("op", p.op_type, p.outputs.index(v) if hasattr(p.outputs, "index") else list(p.outputs).index(v),
             tuple(term(i, leaves, memo, src_graph) for i in p.inputs), tuple(sub))
    memo[k] = t
    return t


def graph_term(g, leaves, memo, src_graph):
    inner_leaves = set(leaves)
    return ("graph", tuple(v.name for v in g.inputs), tuple(term(o, inner_leaves - {v.name for v in g.inputs} if False else leaves, memo, src_graph) for o in g.outputs))


def all_objects(g):
    out = set()

    def walk(gr):
        out.add(id(gr))
        for v in list(gr.inputs) + list(gr.initializers.values()):
            out.add(id(v))
        for nd in gr:
            out.add(id(nd))
            for o in nd.outputs:
                out.add(id(o))
            for a in nd.attributes.values():
                if a.type == ir.AttributeType.GRAPH:
                    walk(a.as_graph())
    walk(g)
    return out


def nested_graphs(g):
    out = []

    def walk(gr):
        for nd in gr:
            for a in nd.attributes.values():
                if a.type == ir.AttributeType.GRAPH:
                    out.append(a.as_graph())
                    walk(a.as_graph())
                elif a.type == ir.AttributeType.GRAPHS:
                    for s in a.as_graphs():
                        out.append(s)
                        walk(s)
    walk(g)
    return out


def brute_captures(sub):
    """values used in `sub` or deeper that are defined neither in `sub` nor deeper."""
    defined, used = set(), {}

    def walk(gr):
        for v in list(gr.inputs) + list(gr.initializers.values()):
            defined.add(id(v))
        for nd in gr:
            for o in nd.outputs:
                defined.add(id(o))
            for v in nd.inputs:
                if v is not None:
                    used[id(v)] = v
            for a in nd.attributes.values():
                if a.type == ir.AttributeType.GRAPH:
                    walk(a.as_graph())
                elif a.type == ir.AttributeType.GRAPHS:
                    for s in a.as_graphs():
                        walk(s)
    walk(sub)
    return {k: v for k, v in used.items() if k not in defined}



def directed_capture_cases(failures):
    """Capture analysis on shapes the random specs do not produce: node-less nested graphs (a branch returning its own
    initializer, a pass-through body) placed BEFORE graphs/nodes that do capture, GRAPHS-valued attributes, and captures
    three levels down."""
    from onnx_ir.analysis import analyze_implicit_usage
    count = 0

    def op(name, inputs, attrs=(), n_out=1):
        nd = ir.Node("", "Op", inputs=list(inputs), num_outputs=n_out, name=name, attributes=list(attrs))
        for k, o in enumerate(nd.outputs):
            o.name = f"{name}_o{k}"
        return nd

    for variant in range(6):
        count += 1
        x, y = ir.Value(name="x"), ir.Value(name="y")
        m = op("m", [x])
        const = ir.Value(name="c", const_value=ir.tensor([1.0], name="c"))
        empty_then = ir.Graph([], [const], nodes=[], initializers=[const], name="then_const")            # node-less
        pin = ir.Value(name="p_in")
        passthrough = ir.Graph([pin], [pin], nodes=[], name="loop_body_passthrough")                   # node-less
        u1 = op("u1", [x, y])
        else_g = ir.Graph([], [u1.outputs[0]], nodes=[u1], name="else_uses_xy")
        deep_use = op("deep_use", [m.outputs[0], y])
        lvl3 = ir.Graph([], [deep_use.outputs[0]], nodes=[deep_use], name="lvl3")
        h2 = op("h2", [], attrs=[ir.AttrGraph("body", lvl3)])
        lvl2 = ir.Graph([], [h2.outputs[0]], nodes=[h2], name="lvl2")
        h1 = op("h1", [], attrs=[ir.AttrGraph("body", lvl2)])
        lvl1 = ir.Graph([], [h1.outputs[0]], nodes=[h1], name="lvl1")
        if variant == 0:
            nodes = [m, op("if1", [x], attrs=[ir.AttrGraph("then_branch", empty_then), ir.AttrGraph("else_branch", else_g)]),
                     op("late", [m.outputs[0]], attrs=[ir.AttrGraph("body", lvl1)])]
        elif variant == 1:
            nodes = [m, op("loop", [x], attrs=[ir.AttrGraph("body", passthrough)]), op("if1", [x], attrs=[ir.AttrGraph("else_branch", else_g)]),
                     op("late", [], attrs=[ir.AttrGraph("body", lvl1)])]
        elif variant == 2:
            nodes = [m, op("multi", [x], attrs=[ir.AttrGraphs("branches", [empty_then, else_g, passthrough, lvl1])])]
        elif variant == 3:
            nodes = [m, op("multi", [x], attrs=[ir.AttrGraphs("branches", [else_g, lvl1, empty_then])]), op("tail", [y])]
        elif variant == 4:
            nodes = [op("if1", [x], attrs=[ir.AttrGraph("a_then", empty_then), ir.AttrGraph("z_else", else_g)]), m,
                     op("late", [], attrs=[ir.AttrGraph("body", lvl1)])]
        else:
            holder_inner = op("inner_if", [y], attrs=[ir.AttrGraph("then_branch", passthrough), ir.AttrGraph("else_branch", lvl1)])
            outer_body = ir.Graph([], [holder_inner.outputs[0]], nodes=[holder_inner], name="outer_body")
            nodes = [m, op("outer", [x], attrs=[ir.AttrGraph("body", outer_body)])]
        main = ir.Graph([x, y], [nodes[-1].outputs[0]], nodes=nodes, name="main")
        try:
            res = analyze_implicit_usage(main)
            subs = nested_graphs(main)
            if {id(s) for s in subs} != {id(k) for k in res}:
                failures.append(f"capture directed#{variant}: analysis reports {sorted(k.name for k in res)} but the nested graphs are {sorted(s.name for s in subs)}")
            for sgr in subs:
                want = brute_captures(sgr)
                got = {id(v): v for v in res.get(sgr, ())}
                if set(want) != set(got):
                    failures.append(f"capture directed#{variant}: graph {sgr.name!r}: reported {sorted(v.name for v in got.values())}, "
                                    f"brute force {sorted(v.name for v in want.values())}")
        except Exception as e:  # noqa: BLE001
            failures.append(f"capture directed#{variant}: raised {e!r}"[:200])
    return count



def directed_name_cuts(failures):
    """A cut given by NAME denotes the same region as the same cut given by OBJECT, also when a nested body reuses a name of
    the graph being extracted from (the enclosing graph's value with that name being produced after the control-flow node)."""
    from onnx_ir import convenience
    count = 0

    def op(name, inputs, out_name, attrs=()):
        nd = ir.Node("", "Op", inputs=list(inputs), num_outputs=1, name=name, attributes=list(attrs))
        nd.outputs[0].name = out_name
        return nd

    def build():
        x = ir.Value(name="x")
        a = op("a", [x], "va")
        inner1 = op("in1", [a.outputs[0]], "h")                 # body value named `h` ...
        inner2 = op("in2", [inner1.outputs[0]], "b_out")
        body = ir.Graph([], [inner2.outputs[0]], nodes=[inner1, inner2], name="body")
        ctl = op("ctl", [a.outputs[0]], "r", attrs=[ir.AttrGraph("body", body)])
        h = op("mk_h", [ctl.outputs[0]], "h")                   # ... and the OUTER `h`, produced after the control-flow node
        t = op("t", [h.outputs[0], a.outputs[0]], "y")
        g = ir.Graph([x], [t.outputs[0]], nodes=[a, ctl, h, t], name="main")
        vals = {"x": x, "va": a.outputs[0], "r": ctl.outputs[0], "h": h.outputs[0], "y": t.outputs[0]}
        return g, vals

    names = ["x", "va", "r", "h", "y"]
    import itertools as _it
    for r_in in (1, 2):
        for ins in _it.combinations(names, r_in):
            for outs in [(o,) for o in names]:
                count += 1

                def run(by_name):
                    g, vals = build()
                    i_args = list(ins) if by_name else [vals[n] for n in ins]
                    o_args = list(outs) if by_name else [vals[n] for n in outs]
                    try:
                        res = convenience.extract(g, i_args, o_args)
                        return ("ok", [n.name for n in res], sorted(k for k in res.initializers), [v.name for v in res.inputs], [v.name for v in res.outputs])
                    except Exception as e:  # noqa: BLE001
                        return ("raise", type(e).__name__)
                a_, b_ = run(False), run(True)
                if a_ != b_:
                    failures.append(f"extract inputs={ins} outputs={outs}: by object -> {a_}, by name -> {b_}"[:400])
    return count


def specs(tier, rnd):
    labels0 = ["x0", "x1", "w"]
    out = []
    for n in (1, 2, 3, 4):
        choices = []
        for i in range(n):
            avail = labels0 + [f"n{j}" for j in range(i)] + (["n0_1"] if i > 0 else [])
            opts = [(a,) for a in avail] + [(a, b) for a in avail for b in avail if a < b] + [(None, a) for a in avail[:2]]
            choices.append(opts)
        wirings = list(itertools.product(*choices))
        rnd.shuffle(wirings)
        lim = {1: 10, 2: 40, 3: 60, 4: 40}[n] if tier == "quick" else {1: 10, 2: 200, 3: 400, 4: 400}[n]
        for wi in wirings[:lim]:
            out.append((n, wi, None))
            owner = rnd.randrange(n)
            avail = labels0 + ["w2"] + [f"n{j}" for j in range(owner)]
            caps = tuple(sorted(rnd.sample(avail, rnd.randint(1, min(2, len(avail))))))
            deep = tuple(sorted(rnd.sample(avail, 1))) if rnd.random() < 0.5 else ()
            out.append((n, wi, (owner, caps, deep)))
    return out


def main():
    ap = argparse.ArgumentParser()
    ap.add_argument("--tier", default="quick")
    ap.add_argument("--seed", type=int, default=int(os.environ.get("VERIF_SEED", "0") or 0))
    a = ap.parse_args()
    t0 = time.time()
    rnd = random.Random(a.seed)
    failures, evaluations, distinct, samples = [], 0, set(), []
    from onnx_ir.analysis import analyze_implicit_usage
    nd = directed_capture_cases(failures) + directed_name_cuts(failures)
    evaluations += nd
    for i in range(nd):
        distinct.add(("capture-directed", i))
    for spec in specs(a.tier, rnd):
        n, wi, body = spec
        # (b) capture analysis
        g, base, vals, nodes = build(spec)
        evaluations += 1
        distinct.add(("capture", spec))
        try:
            res = analyze_implicit_usage(base)
            subs = nested_graphs(base)
            if {id(s) for s in subs} != {id(k) for k in res}:
                failures.append(f"capture {spec}: analysis reports {sorted(k.name for k in res)} but the nested graphs are {sorted(s.name for s in subs)}")
            for s in subs:
                want = brute_captures(s)
                got = {id(v): v for v in res.get(s, ())}
                if set(want) != set(got):
                    failures.append(f"capture {spec}: graph {s.name!r}: reported {sorted(v.name for v in got.values())}, brute force {sorted(v.name for v in want.values())}")
        except Exception as e:  # noqa: BLE001
            failures.append(f"capture {spec}: raised {e!r}"[:200])
        # (a) extraction
        value_names = ["x0", "x1", "w"] + [o.name for nd in nodes for o in nd.outputs]
        cuts = []
        for r in (0, 1, 2):
            for ins in itertools.combinations(value_names, r):
                for outs in [(o,) for o in value_names] + [tuple(c) for c in itertools.combinations(value_names[3:], 2)]:
                    cuts.append((ins, outs))
        rnd.shuffle(cuts)
        cuts = cuts[: (12 if a.tier == "quick" else 60)]
        for ins, outs in cuts:
            for kind in ("graph", "view", "function"):
                for by in ("object", "name"):
                    if kind != "graph" and by == "name" and rnd.random() < 0.7:
                        continue
                    evaluations += 1
                    distinct.add((spec, ins, outs, kind, by))
                    tag = f"extract[{kind},{by}] spec={spec} inputs={ins} outputs={outs}"
                    gl, base, vals, nodes = build(spec, kind)
                    in_vals, out_vals = [vals[x] for x in ins], [vals[x] for x in outs]
                    need_nodes, need_vals = oracle(base, nodes, in_vals, out_vals, kind == "function")
                    uncovered = [v for v in vals.values() if id(v) in need_vals and not v.is_initializer()]
                    src_objs = all_objects(base)
                    try:
                        ex = ir.convenience.extract(gl, list(ins) if by == "name" else in_vals, list(outs) if by == "name" else out_vals)
                        raised = None
                    except Exception as e:  # noqa: BLE001   (the statement says "raises", not which exception)
                        raised = e
                    if uncovered:
                        if raised is None:
                            failures.append(f"{tag}: required non-initializer value(s) {sorted(v.name for v in uncovered)} not covered by the inputs, but no error")
                        continue
                    if raised is not None:
                        failures.append(f"{tag}: properly bounded but raised {raised!r}"[:300])
                        continue
                    want_nodes = [nd.name for nd in nodes if id(nd) in need_nodes]
                    got_nodes = [nd.name for nd in ex]
                    if got_nodes != want_nodes:
                        failures.append(f"{tag}: nodes {got_nodes}, needed exactly {want_nodes} in that order")
                        continue
                    want_inits = sorted(v.name for v in vals.values() if v.is_initializer() and (id(v) in need_vals or v.name in ins))
                    got_inits = sorted(ex.initializers.keys())
                    if got_inits != want_inits:
                        failures.append(f"{tag}: initializers {got_inits}, needed {want_inits}")
                    shared = all_objects(ex) & src_objs
                    if shared:
                        failures.append(f"{tag}: the extracted graph shares {len(shared)} object(s) with the source")
                    # captured values inside cloned bodies must be the clone's own values
                    for nd in ex:
                        for v in captures(nd, base):
                            failures.append(f"{tag}: nested body of extracted node {nd.name} still uses source value {v.name}")
                            break
                    if [v.name for v in ex.inputs] != list(ins) or [v.name for v in ex.outputs] != list(outs):
                        failures.append(f"{tag}: boundary is inputs={[v.name for v in ex.inputs]} outputs={[v.name for v in ex.outputs]}")
                    leaves = set(ins)
                    t_src = [term(v, leaves, {}, base) for v in out_vals]
                    t_ex = [term(v, leaves, {}, ex) for v in ex.outputs]
                    if t_src != t_ex:
                        failures.append(f"{tag}: the extracted graph does not compute the source's values at the outputs")
                    if len(samples) < 4 and body is not None and need_nodes:
                        samples.append({"spec": repr(spec), "inputs": list(ins), "outputs": list(outs), "kind": kind, "by": by})
            if len(failures) > 40:
                break
        if len(failures) > 40:
            break
    uniq, seenk = [], set()
    for f in failures:
        k = f.split(": ", 1)[-1][:60]
        if k not in seenk:
            seenk.add(k)
            uniq.append(f)
    known = {}
    kf = os.path.join(ROOT, "known_findings.json")
    if os.path.exists(kf):
        for k in json.load(open(kf)).get("open", []):
            if k.get("property") == "C18" and k.get("key"):
                known[k["key"]] = k
    new, known_lines = [], []
    for f in uniq:
        hit = next((k for key, k in known.items() if key in f), None)
        if hit:
            if hit["what"] not in known_lines:
                known_lines.append(hit["what"])
        else:
            new.append(f)
    out = {"status": "violation" if new else "ok", "evaluations": evaluations, "distinct_nontrivial": len(distinct),
           "rule": "main graphs of <= 4 nodes over 2 inputs + 2 initializers (sampled wirings, seeded), optional nested body with captures and a body two "
                   "deep; sampled cuts (<= 2 inputs, 1-2 outputs) by object/name on Graph/GraphView/Function; distinct = (graph, cut, kind, by); bounded, not a proof",
           "known_findings": known_lines, "samples": samples, "failures": new[:12], "wall_s": round(time.time() - t0, 2)}
    if new:
        os.makedirs(os.path.join(ROOT, "out", "replay"), exist_ok=True)
        path = os.path.join(ROOT, "out", "replay", "C18_bounded.json")
        json.dump({"property": "C18", "kind": "script",
                   "script": "import subprocess, sys, json\nr = subprocess.run([sys.executable, %r, '--tier', %r, '--seed', %r], capture_output=True, text=True)\n"
                             "d = json.loads(r.stdout.strip().splitlines()[-1])\nVIOLATED = d['status'] == 'violation'\nDETAIL = '\\n'.join(d.get('failures', []))\n"
                             % (os.path.abspath(__file__), a.tier, str(a.seed)), "failures": new[:12]}, open(path, "w"), indent=1)
        out["replay"] = path
    print(json.dumps(out))


if __name__ == "__main__":
    main()
