"""Run under /venv/bin/python: confirm that the source text pyvc verified is the text CPython imports."""
import hashlib
import importlib
import inspect
import json
import sys

items = json.load(sys.stdin)
checked, mismatch = 0, []
for it in items:
    if it.get("kind") == "file":
        # whole-module effect contracts: the file analysed is the file CPython imports
        try:
            m = importlib.import_module(it["module"])
            import os
            same = os.path.realpath(m.__file__) == os.path.realpath(it["file"])
            sha = hashlib.sha256(open(m.__file__, "rb").read()).hexdigest()[:16]
            if same and sha == it["sha256"]:
                checked += 1
            else:
                mismatch.append(f"{it['module']}: imported {m.__file__} sha {sha} != analysed {it['file']} {it['sha256']}")
        except Exception as e:  # noqa: BLE001
            mismatch.append(f"{it['module']}: {e!r}")
        continue
    fqn = it["function"]
    kind = it.get("kind") or ("setter" if fqn.endswith("#setter") else "function")
    fqn = fqn.split("#")[0]
    if fqn.startswith("stdlib:"):
        fqn = fqn[len("stdlib:"):]
    parts = fqn.split(".")
    obj = None
    for cut in range(len(parts) - 1, 0, -1):
        try:
            obj = importlib.import_module(".".join(parts[:cut]))
            rest = parts[cut:]
            break
        except ImportError:
            continue
    if obj is None:
        mismatch.append(f"{fqn}: module not importable")
        continue
    try:
        for i, r in enumerate(rest):
            if i == len(rest) - 1 and inspect.isclass(obj):
                raw = inspect.getattr_static(obj, r)
                if isinstance(raw, property):
                    obj = raw.fset if kind == "setter" else raw.fget
                elif isinstance(raw, (staticmethod, classmethod)):
                    obj = raw.__func__
                else:
                    obj = raw
            else:
                obj = getattr(obj, r)
        obj = inspect.unwrap(obj) if callable(obj) and hasattr(obj, "__wrapped__") else obj
        lines, start = inspect.getsourcelines(obj)
        text = "".join(lines)
    except Exception as e:  # noqa: BLE001
        mismatch.append(f"{fqn}: {e!r}")
        continue
    sha = hashlib.sha256(text.encode()).hexdigest()[:16]
    if sha != it["sha256"]:
        # decorated functions: inspect starts at the decorator just like the extractor; report otherwise
        mismatch.append(f"{fqn}: sha {sha} != verified {it['sha256']} (lines {start}-{start + len(lines) - 1} vs {it['lines']})")
    else:
        checked += 1
print(json.dumps({"checked": checked, "mismatch": mismatch}))
