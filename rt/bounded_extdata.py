"""Bounded stand-ins for C07 / C08 / C09 (never counted as proved), on the real library and a real file system.

--prop C07  save -> load round trip over a grid (threshold x alignment x shard limit x workers x initializer kinds): equal
            name/dtype/shape/bytes; external iff nbytes > threshold; per data file the recorded ranges follow declaration
            order, do not overlap, lie inside the file, honour the alignment; the model passed to save keeps its tensor
            objects (also when save raises).
--prop C08  faults injected at the file-system effects of a save (callback, tensor materialisation incl. mid-file,
            mode copy, rename): a pre-existing destination is exactly old or exactly new; after a failure it is old, no
            temporary file/dir remains and external tensors reading from it stay valid; a sharded save never changes a
            pre-existing file.
--prop C09  worker counts x budgets: files byte-identical to the serial save, callback once per tensor and never from
            two threads at once (also across shards), a shared tensor object evaluated one use at a time, peak
            materialised bytes <= budget + largest tensor, an exception reaches the caller.
Last stdout line: JSON."""
import argparse
import itertools
import json
import os
import shutil
import sys
import tempfile
import threading
import time
import unittest.mock

import numpy as np

import onnx_ir as ir

ROOT = os.path.dirname(os.path.dirname(os.path.abspath(__file__)))


def make_model(kinds=("arr", "lazy", "packed", "zero", "dup", "sub"), sizes=(3, 40, 300, 2000)):
    x = ir.Value(name="x", shape=ir.Shape([1]), type=ir.TensorType(ir.DataType.FLOAT))
    inits, expected = [], {}
    rng = np.random.default_rng(0)

    def add(name, tensor):
        v = ir.Value(name=name, const_value=tensor)
        v.shape, v.dtype = tensor.shape, tensor.dtype
        inits.append(v)
        expected[name] = (tensor.dtype, tuple(tensor.shape.numpy()), bytes(tensor.tobytes()))
    shared = None
    for i, n in enumerate(sizes):
        arr = rng.standard_normal(n).astype(np.float32)
        if "arr" in kinds:
            add(f"arr{i}", ir.Tensor(arr, name=f"arr{i}"))
        if "lazy" in kinds and i % 2 == 0:
            t = ir.Tensor(arr * 2, name=f"lazy{i}")
            add(f"lazy{i}", ir.LazyTensor(lambda t=t: t, dtype=t.dtype, shape=t.shape, name=f"lazy{i}"))
    if "packed" in kinds:
        a4 = (np.arange(7) % 8).astype(np.uint8)
        add("packed", ir.Tensor(a4.astype(ir.DataType.UINT4.numpy()), dtype=ir.DataType.UINT4, name="packed"))
    if "zero" in kinds:
        add("zero", ir.Tensor(np.zeros((0,), dtype=np.float32), name="zero"))
    if "dup" in kinds:
        shared = ir.Tensor(np.arange(50, dtype=np.float32), name="dupA")
        va = ir.Value(name="dupA", const_value=shared)
        vb = ir.Value(name="dupB", const_value=shared)
        for v in (va, vb):
            v.shape, v.dtype = shared.shape, shared.dtype
            inits.append(v)
        expected["dupA"] = expected["dupB"] = (shared.dtype, (50,), bytes(shared.tobytes()))
    node = ir.Node("", "Identity", [x], num_outputs=1, name="n")
    node.outputs[0].name = "y"
    node.outputs[0].shape, node.outputs[0].dtype = ir.Shape([1]), ir.DataType.FLOAT
    nodes = [node]
    sub_inits = []
    if "sub" in kinds:
        st = ir.Tensor(np.arange(120, dtype=np.float32), name="subw")
        sv = ir.Value(name="subw", const_value=st)
        sv.shape, sv.dtype = st.shape, st.dtype
        sn = ir.Node("", "Identity", [sv], num_outputs=1, name="sn")
        sn.outputs[0].name = "so"
        sg = ir.Graph([], [sn.outputs[0]], nodes=[sn], initializers=[sv], name="sub")
        holder = ir.Node("", "If", [x], attributes=[ir.AttrGraph("then_branch", sg)], num_outputs=1, name="holder")
        holder.outputs[0].name = "h"
        nodes.append(holder)
        sub_inits.append(sv)
        expected["subw"] = (st.dtype, (120,), bytes(st.tobytes()))
    g = ir.Graph([x], [node.outputs[0]], nodes=nodes, initializers=inits, name="g", opset_imports={"": 18})
    return ir.Model(g, ir_version=10), expected, inits + sub_inits


def all_initializers(model):
    out = []
    for g in model.graphs():
        out += list(g.initializers.values())
    return out


def check_layout(model_dir, loaded, alignment, align_threshold, failures, tag):
    by_file = {}
    for v in all_initializers(loaded):
        t = v.const_value
        if isinstance(t, ir.ExternalTensor):
            by_file.setdefault(os.path.join(model_dir, os.fspath(t.location)), []).append((t.offset or 0, t.length if t.length is not None else t.nbytes, t.nbytes, v.name))
    for path, ranges in by_file.items():
        size = os.path.getsize(path)
        prev_end = 0
        for k, (off, length, nbytes, name) in enumerate(ranges):
            if off < prev_end:
                failures.append(f"{tag}: range of {name} starts at {off} before the end {prev_end} of the previous tensor (order/overlap)")
            if off + length > size:
                failures.append(f"{tag}: range of {name} [{off},{off + length}) exceeds the file size {size}")
            if length != nbytes:
                failures.append(f"{tag}: recorded length {length} of {name} != nbytes {nbytes}")
            if alignment is None:
                if off != prev_end:
                    failures.append(f"{tag}: dense packing requested but {name} starts at {off}, previous end {prev_end}")
            elif nbytes > align_threshold:
                f = max(4096, alignment)
                if off % f != 0 or off - prev_end >= f:
                    failures.append(f"{tag}: {name} offset {off} not aligned to {f} (previous end {prev_end})")
            elif off != prev_end:
                failures.append(f"{tag}: small tensor {name} should not be padded ({off} vs {prev_end})")
            prev_end = off + length
    return by_file


def prop_c07(tier, failures, counter, samples):
    thresholds = (0, 12, 160, 10 ** 6)
    alignments = ((None, 0), (1, 0), (4096, 100), (65536, 0), (12288, 0), (10000, 100))   # incl. granularities that are not powers of two
    shards = (None, 1, 500, 10 ** 7)
    workers = (None, 4) if tier == "quick" else (None, 1, 4)
    for thr, (al, althr), sh, wk in itertools.product(thresholds, alignments, shards, workers):
        counter[0] += 1
        tag = f"threshold={thr} alignment={al}/{althr} shard={sh} workers={wk}"
        d = tempfile.mkdtemp(prefix="c07_")
        try:
            model, expected, inits = make_model()
            objs = {id(v): v.const_value for v in inits}
            try:
                ir.save(model, os.path.join(d, "m.onnx"), external_data="w.more.data", size_threshold_bytes=thr, max_shard_size_bytes=sh,
                        max_workers=wk, alignment=al, align_threshold=althr)
            except Exception as e:  # noqa: BLE001
                failures.append(f"{tag}: save raised {e!r}"[:220])
                continue
            for v in inits:
                if v.const_value is not objs[id(v)]:
                    failures.append(f"{tag}: after save the model holds a different tensor object for {v.name}")
            loaded = ir.load(os.path.join(d, "m.onnx"))
            got = {v.name: v for v in all_initializers(loaded)}
            for name, (dt, shape, data) in expected.items():
                v = got.get(name)
                if v is None:
                    failures.append(f"{tag}: initializer {name} lost")
                    continue
                t = v.const_value
                if t.dtype != dt or tuple(t.shape.numpy()) != shape or bytes(t.tobytes()) != data:
                    failures.append(f"{tag}: initializer {name} differs after the round trip")
                ext = isinstance(t, ir.ExternalTensor)
                if ext != (len(data) > thr):
                    failures.append(f"{tag}: {name} ({len(data)} bytes) is {'external' if ext else 'inline'} with threshold {thr}")
            files = check_layout(d, loaded, al, althr, failures, tag)
            if sh is not None:
                for path, ranges in files.items():
                    end = max(o + l for o, l, _, _ in ranges)
                    if end > sh and len(ranges) > 1:
                        failures.append(f"{tag}: shard {os.path.basename(path)} holds {len(ranges)} tensors but is {end} bytes > limit {sh}")
            if len(samples) < 3:
                samples.append({"case": tag, "files": sorted(os.path.basename(p) for p in files)})
        finally:
            shutil.rmtree(d, ignore_errors=True)
    # re-save in place with a higher threshold: external tensors at or below it must come back inline with their own bytes
    for thr2, wk in itertools.product((50, 200, 1300), (None, 4)):
        counter[0] += 1
        tag = f"re-save in place threshold 0 -> {thr2} workers={wk}"
        d = tempfile.mkdtemp(prefix="c07_")
        try:
            model, expected, inits = make_model(kinds=("arr", "lazy"))
            ir.save(model, os.path.join(d, "m.onnx"), external_data="w.data", size_threshold_bytes=0)
            loaded = ir.load(os.path.join(d, "m.onnx"))
            held = {v.name: v.const_value for v in all_initializers(loaded)}
            ir.save(loaded, os.path.join(d, "m.onnx"), external_data="w.data", size_threshold_bytes=thr2, max_workers=wk)
            # the model object passed to save holds the same tensor objects afterwards (also those at or below the threshold)
            for v in all_initializers(loaded):
                if v.const_value is not held[v.name]:
                    failures.append(f"{tag}: after save the model holds a different tensor object for {v.name} "
                                    f"({type(held[v.name]).__name__} -> {type(v.const_value).__name__})")
            again = ir.load(os.path.join(d, "m.onnx"))
            got = {v.name: v for v in all_initializers(again)}
            for name, (dt, shape, data) in expected.items():
                t = got[name].const_value
                if bytes(t.tobytes()) != data:
                    failures.append(f"{tag}: initializer {name} has different bytes after the in-place re-save")
                if isinstance(t, ir.ExternalTensor) != (len(data) > thr2):
                    failures.append(f"{tag}: {name} ({len(data)} bytes) external={isinstance(t, ir.ExternalTensor)}")
        except Exception as e:  # noqa: BLE001
            failures.append(f"{tag}: raised {e!r}"[:200])
        finally:
            shutil.rmtree(d, ignore_errors=True)
    # save that raises (a lazy tensor that fails): the model keeps its tensor objects
    d = tempfile.mkdtemp(prefix="c07_")
    try:
        model, expected, inits = make_model(kinds=("arr",))

        def boom():
            raise RuntimeError("cannot materialise")
        bad = ir.Value(name="bad", const_value=ir.LazyTensor(boom, dtype=ir.DataType.FLOAT, shape=ir.Shape([100]), name="bad"))
        model.graph.initializers.add(bad)
        objs = {id(v): v.const_value for v in all_initializers(model)}
        counter[0] += 1
        try:
            ir.save(model, os.path.join(d, "m.onnx"), external_data="w.data")
            failures.append("failing lazy tensor: save did not raise")
        except Exception:  # noqa: BLE001
            pass
        for v in all_initializers(model):
            if v.const_value is not objs[id(v)]:
                failures.append(f"save raised but the model now holds a different tensor object for {v.name}")
    finally:
        shutil.rmtree(d, ignore_errors=True)


def prop_c08(tier, failures, counter, samples):
    import onnx_ir.external_data as ed
    faults = [("callback", 2), ("tofile", 1), ("tofile-mid", 1), ("copymode", 1), ("replace", 1), ("none", 0)]
    for workers in (None, 4):
        for fault, at in faults:
            counter[0] += 1
            tag = f"single-file workers={workers} fault={fault}@{at}"
            d = tempfile.mkdtemp(prefix="c08_")
            try:
                model, expected, inits = make_model(kinds=("arr", "lazy"))
                ir.save(model, os.path.join(d, "m.onnx"), external_data="w.data", size_threshold_bytes=0)
                old = open(os.path.join(d, "w.data"), "rb").read()
                loaded = ir.load(os.path.join(d, "m.onnx"))
                ext = [v.const_value for v in all_initializers(loaded) if isinstance(v.const_value, ir.ExternalTensor)]
                # make the new content different from the old one
                first = all_initializers(loaded)[0]
                extra = ir.Value(name="extra", const_value=ir.Tensor(np.arange(77, dtype=np.float32), name="extra"))
                loaded.graph.initializers.add(extra)
                calls = {"n": 0}

                def cb(tensor, info):
                    calls["n"] += 1
                    if fault == "callback" and calls["n"] == at:
                        raise RuntimeError("callback fault")
                patches = []
                if fault in ("tofile", "tofile-mid"):
                    orig = ir.Tensor.tofile
                    cnt = {"n": 0}

                    def tofile(self, file, orig=orig, cnt=cnt):
                        cnt["n"] += 1
                        if cnt["n"] == at:
                            if fault == "tofile-mid":
                                file.write(bytes(self.tobytes())[: self.nbytes // 2])
                            raise OSError("disk fault")
                        return orig(self, file)
                    patches.append(unittest.mock.patch.object(ir.Tensor, "tofile", tofile))
                if fault == "copymode":
                    patches.append(unittest.mock.patch("shutil.copymode", side_effect=OSError("copymode fault")))
                if fault == "replace":
                    patches.append(unittest.mock.patch("os.replace", side_effect=OSError("rename fault")))
                raised = None
                for pt in patches:
                    pt.start()
                try:
                    ir.save(loaded, os.path.join(d, "m.onnx"), external_data="w.data", callback=cb, max_workers=workers, size_threshold_bytes=0)
                except Exception as e:  # noqa: BLE001
                    raised = e
                finally:
                    for pt in patches:
                        pt.stop()
                now = open(os.path.join(d, "w.data"), "rb").read()
                leftovers = [f for f in os.listdir(d) if f not in ("m.onnx", "w.data")]
                if raised is not None:
                    if now != old:
                        failures.append(f"{tag}: save failed ({raised!r}) but the existing data file changed ({len(old)} -> {len(now)} bytes)"[:230])
                    if leftovers:
                        failures.append(f"{tag}: temporary files/directories remain after a failed save: {leftovers}")
                    for t in ext:
                        if not t.valid():
                            failures.append(f"{tag}: ExternalTensor {t.name!r} was invalidated although its backing file was not replaced")
                            break
                        try:
                            t.numpy()
                        except Exception as e:  # noqa: BLE001
                            failures.append(f"{tag}: ExternalTensor {t.name!r} is unreadable after the failed save: {e!r}"[:200])
                            break
                else:
                    if fault != "none":
                        failures.append(f"{tag}: injected fault did not reach the caller")
                    reload_ = ir.load(os.path.join(d, "m.onnx"))
                    for v in all_initializers(reload_):
                        if isinstance(v.const_value, ir.ExternalTensor):
                            v.const_value.numpy()
                    if leftovers:
                        failures.append(f"{tag}: temporary files remain after a successful save: {leftovers}")
                for t in ext:
                    try:
                        t.release()
                    except Exception:  # noqa: BLE001
                        pass
                if len(samples) < 3:
                    samples.append({"case": tag, "raised": repr(raised)[:60]})
            finally:
                shutil.rmtree(d, ignore_errors=True)
    # sharded: a pre-existing file is never changed
    d = tempfile.mkdtemp(prefix="c08_")
    try:
        counter[0] += 1
        model, expected, inits = make_model(kinds=("arr",))
        ir.save(model, os.path.join(d, "m.onnx"), external_data="w.data", max_shard_size_bytes=1000)
        before = {f: open(os.path.join(d, f), "rb").read() for f in os.listdir(d)}
        model2, _, _ = make_model(kinds=("arr", "lazy"))
        try:
            ir.save(model2, os.path.join(d, "m2.onnx"), external_data="w.data", max_shard_size_bytes=1000)
        except Exception:  # noqa: BLE001
            pass
        for f, data in before.items():
            if f.startswith("w") and open(os.path.join(d, f), "rb").read() != data:
                failures.append(f"sharded save changed the pre-existing file {f}")
    finally:
        shutil.rmtree(d, ignore_errors=True)
    # sharded saves of every shard count (incl. layouts that fit in ONE shard, whose file keeps the plain name) over pre-existing
    # files: foreign files and the loaded model's own data file; nothing pre-existing may change and its readers stay valid
    for limit in (10 ** 9, 1 << 20, 3000, 1000):
        for scenario in ("foreign", "own-file"):
            d = tempfile.mkdtemp(prefix="c08s_")
            try:
                counter[0] += 1
                model, expected, inits = make_model(kinds=("arr",))
                if scenario == "foreign":
                    for fn in ("w.data", "w-00001-of-00002.data", "w-00002-of-00002.data", "w-00001-of-00003.data"):
                        open(os.path.join(d, fn), "wb").write(b"PRE-EXISTING " + fn.encode() * 50)
                    subject = model
                else:
                    ir.save(model, os.path.join(d, "m.onnx"), external_data="w.data")
                    subject = ir.load(os.path.join(d, "m.onnx"))
                    subject.graph.initializers.add(ir.Value(name="extra_w", const_value=ir.tensor(np.arange(64, dtype=np.float32), name="extra_w")))
                before = {f: open(os.path.join(d, f), "rb").read() for f in os.listdir(d)}
                ext_before = [(v.name, v.const_value, v.const_value.numpy().copy()) for v in all_initializers(subject)
                              if isinstance(v.const_value, ir.ExternalTensor)]
                raised = None
                try:
                    ir.save(subject, os.path.join(d, "m.onnx" if scenario == "own-file" else "m2.onnx"), external_data="w.data", max_shard_size_bytes=limit)
                except Exception as e:  # noqa: BLE001
                    raised = e
                for f, data in before.items():
                    if f.endswith(".data") and open(os.path.join(d, f), "rb").read() != data:
                        failures.append(f"sharded save (limit {limit}, {scenario}) changed the pre-existing file {f} (raised: {raised!r})"[:300])
                for name, t, arr in ext_before:
                    try:
                        if not t.valid() or not np.array_equal(t.numpy(), arr):
                            failures.append(f"sharded save (limit {limit}, {scenario}): external tensor {name} reading a pre-existing file is no longer valid/equal")
                    except Exception as e:  # noqa: BLE001
                        failures.append(f"sharded save (limit {limit}, {scenario}): external tensor {name} unreadable afterwards: {e!r}"[:300])
            finally:
                shutil.rmtree(d, ignore_errors=True)


HUNG = False


def prop_c09(tier, failures, counter, samples):
    worker_opts = (2, 4, 6, 9, 12)
    budgets = (1, 64, 10 ** 9)
    shard_opts = (None, 900, 12000)
    for wk, budget, sh in itertools.product(worker_opts, budgets, shard_opts):
        counter[0] += 1
        tag = f"workers={wk} budget={budget} shard={sh}"
        d1, d2 = tempfile.mkdtemp(prefix="c09s_"), tempfile.mkdtemp(prefix="c09p_")
        try:
            model, expected, inits = make_model(kinds=("arr", "lazy", "dup"), sizes=(3, 40, 300, 2000, 900, 901))
            ir.save(model, os.path.join(d1, "m.onnx"), external_data="w.data", max_shard_size_bytes=sh, size_threshold_bytes=0)
            model2, _, inits2 = make_model(kinds=("arr", "lazy", "dup"), sizes=(3, 40, 300, 2000, 900, 901))
            active = {"n": 0, "max": 0, "calls": []}
            lock_free = threading.Lock()

            def cb(tensor, info):
                active["n"] += 1
                active["max"] = max(active["max"], active["n"])
                time.sleep(0.002)
                active["calls"].append(info.index)
                active["n"] -= 1
            # evaluation of the shared tensor object one use at a time
            shared = [v.const_value for v in inits2 if v.name == "dupA"][0]
            inuse = {"n": 0, "max": 0}
            orig_tofile = ir.Tensor.tofile

            def tofile(self, file):
                if self is shared:
                    inuse["n"] += 1
                    inuse["max"] = max(inuse["max"], inuse["n"])
                    time.sleep(0.003)
                    try:
                        return orig_tofile(self, file)
                    finally:
                        inuse["n"] -= 1
                return orig_tofile(self, file)
            with unittest.mock.patch.object(ir.Tensor, "tofile", tofile):
                ir.save(model2, os.path.join(d2, "m.onnx"), external_data="w.data", max_shard_size_bytes=sh, max_workers=wk,
                        max_in_flight_bytes=budget, callback=cb, size_threshold_bytes=0)
            f1 = sorted(f for f in os.listdir(d1) if f != "m.onnx")
            f2 = sorted(f for f in os.listdir(d2) if f != "m.onnx")
            if f1 != f2:
                failures.append(f"{tag}: data files differ from the serial save: {f1} vs {f2}")
            for f in f1:
                if f in f2 and open(os.path.join(d1, f), "rb").read() != open(os.path.join(d2, f), "rb").read():
                    failures.append(f"{tag}: {f} is not byte-identical to the serial save")
            n_ext = sum(1 for v in inits2 if len(bytes(v.const_value.tobytes())) > 0)
            if sorted(active["calls"]) != sorted(set(active["calls"])) or len(active["calls"]) != n_ext:
                failures.append(f"{tag}: callback invoked {len(active['calls'])} times for {n_ext} tensors (indices {sorted(active['calls'])[:8]}...)")
            if active["max"] > 1:
                failures.append(f"{tag}: the progress callback ran in {active['max']} threads at once")
            if inuse["max"] > 1:
                failures.append(f"{tag}: a tensor object shared by two initializers was evaluated by {inuse['max']} threads at once")
            if len(samples) < 3:
                samples.append({"case": tag, "callbacks": len(active["calls"])})
        except Exception as e:  # noqa: BLE001
            failures.append(f"{tag}: raised {e!r}"[:200])
        finally:
            shutil.rmtree(d1, ignore_errors=True)
            shutil.rmtree(d2, ignore_errors=True)
    # peak materialised bytes <= budget + largest tensor, also across shards that each hold an oversized tensor
    for sizes, budget, sh, wk in (((150, 150), 100, 200, 4), ((150, 150, 150), 100, 200, 6), ((60, 60, 60), 100, 64, 3), ((60, 60, 60), 100, 64, 6),
                                  ((40, 40, 40, 40, 40, 40), 100, None, 4), ((300, 20, 20, 300), 64, 400, 4)):
        counter[0] += 1
        tag = f"peak memory sizes={sizes} budget={budget} shard={sh} workers={wk}"
        d = tempfile.mkdtemp(prefix="c09m_")
        try:
            vals = [ir.Value(name=f"t{i}", const_value=ir.Tensor(np.full((n,), i, dtype=np.uint8), name=f"t{i}")) for i, n in enumerate(sizes)]
            g = ir.Graph([], [], nodes=[], initializers=vals, name="g", opset_imports={"": 18})
            model = ir.Model(g, ir_version=10)
            held = {"n": 0, "max": 0}
            mlock = threading.Lock()
            orig_tofile = ir.Tensor.tofile

            def tofile(self, file, orig_tofile=orig_tofile, held=held, mlock=mlock):
                with mlock:
                    held["n"] += self.nbytes
                    held["max"] = max(held["max"], held["n"])
                time.sleep(0.02)
                try:
                    return orig_tofile(self, file)
                finally:
                    with mlock:
                        held["n"] -= self.nbytes
            with unittest.mock.patch.object(ir.Tensor, "tofile", tofile):
                ir.save(model, os.path.join(d, "m.onnx"), external_data="w.data", max_shard_size_bytes=sh, max_workers=wk,
                        max_in_flight_bytes=budget, size_threshold_bytes=0)
            bound = budget + max(sizes)
            if held["max"] > bound:
                failures.append(f"{tag}: {held['max']} bytes were materialised at once, more than budget + largest tensor = {bound}")
        except Exception as e:  # noqa: BLE001
            failures.append(f"{tag}: raised {e!r}"[:200])
        finally:
            shutil.rmtree(d, ignore_errors=True)
    # a failing tensor with a SMALL budget: the exception reaches the caller (nobody waits for ever on bytes that a failed
    # writer still holds) - each save runs in a thread with a deadline
    global HUNG
    for sizes, budget, sh, wk in (((80, 30, 70), 110, 100, 4), ((100, 100, 100, 100, 100, 100), 100, None, 2), ((50, 60, 50, 60), 70, 64, 6)):
        counter[0] += 1
        tag = f"failing writer sizes={sizes} budget={budget} shard={sh} workers={wk}"
        d = tempfile.mkdtemp(prefix="c09f_")
        started = threading.Event()

        class Failing(ir.Tensor):
            def tofile(self, file):
                started.wait(0.3)
                raise RuntimeError("boom")
        vals = []
        for i, n in enumerate(sizes):
            cls = Failing if i == 0 else ir.Tensor
            vals.append(ir.Value(name=f"t{i}", const_value=cls(np.full((n,), i, dtype=np.uint8), name=f"t{i}")))
        g = ir.Graph([], [], nodes=[], initializers=vals, name="g", opset_imports={"": 18})
        model = ir.Model(g, ir_version=10)
        orig_tofile = ir.Tensor.tofile
        outcome = {}

        def slow(self, file, orig_tofile=orig_tofile):
            started.set()
            time.sleep(0.05)
            return orig_tofile(self, file)

        def run(model=model, d=d, sh=sh, wk=wk, budget=budget, outcome=outcome):
            try:
                with unittest.mock.patch.object(ir.Tensor, "tofile", slow):
                    ir.save(model, os.path.join(d, "m.onnx"), external_data="w.data", max_shard_size_bytes=sh, max_workers=wk,
                            max_in_flight_bytes=budget, size_threshold_bytes=0)
                outcome["r"] = "returned"
            except BaseException as e:  # noqa: BLE001
                outcome["r"] = repr(e)
        th = threading.Thread(target=run, daemon=True)
        th.start()
        th.join(15)
        if th.is_alive():
            failures.append(f"{tag}: save did not finish within 15 s after a writer failed (a reservation was never released?)")
            HUNG = True
        elif "boom" not in outcome.get("r", ""):
            failures.append(f"{tag}: the writer's exception did not reach the caller (outcome {outcome.get('r')})")
        if not th.is_alive():
            shutil.rmtree(d, ignore_errors=True)
    # an exception in a worker reaches the caller (after workers stopped: no thread of the pool is alive)
    for wk in (2, 6):
        counter[0] += 1
        d = tempfile.mkdtemp(prefix="c09e_")
        try:
            model, _, _ = make_model(kinds=("arr",))

            def boom():
                raise RuntimeError("worker fault")
            model.graph.initializers.add(ir.Value(name="bad", const_value=ir.LazyTensor(boom, dtype=ir.DataType.FLOAT, shape=ir.Shape([64]), name="bad")))
            before = threading.active_count()
            try:
                ir.save(model, os.path.join(d, "m.onnx"), external_data="w.data", max_workers=wk, max_shard_size_bytes=700)
                failures.append(f"workers={wk}: failing tensor did not make save raise")
            except Exception:  # noqa: BLE001
                pass
            time.sleep(0.05)
            if threading.active_count() > before:
                failures.append(f"workers={wk}: worker threads still alive after the exception reached the caller")
        finally:
            shutil.rmtree(d, ignore_errors=True)


def main():
    ap = argparse.ArgumentParser()
    ap.add_argument("--tier", default="quick")
    ap.add_argument("--seed", type=int, default=0)
    ap.add_argument("--prop", default="C07")
    a = ap.parse_args()
    t0 = time.time()
    failures, counter, samples = [], [0], []
    {"C07": prop_c07, "C08": prop_c08, "C09": prop_c09}[a.prop](a.tier, failures, counter, samples)
    known = {}
    kf = os.path.join(ROOT, "known_findings.json")
    if os.path.exists(kf):
        for k in json.load(open(kf)).get("open", []):
            if k.get("property") == a.prop and k.get("key"):
                known[k["key"]] = k
    new, known_lines = [], []
    for f in failures:
        hit = next((k for key, k in known.items() if key in f), None)
        if hit:
            if hit["what"] not in known_lines:
                known_lines.append(hit["what"])
        else:
            new.append(f)
    out = {"status": "violation" if new else "ok", "evaluations": counter[0], "distinct_nontrivial": counter[0],
           "rule": {"C07": "threshold x alignment x shard limit x workers grid on a model with array/lazy/packed/zero-size/shared/subgraph initializers",
                    "C08": "faults at callback / tensor write (start and mid-file) / mode copy / rename x {serial, 4 workers}; sharded collision",
                    "C09": "worker counts x in-flight budgets x shard limits against the serial save; failing worker"}[a.prop] + "; bounded, not a proof",
           "known_findings": known_lines, "samples": samples, "failures": new[:15], "wall_s": round(time.time() - t0, 2)}
    if new:
        os.makedirs(os.path.join(ROOT, "out", "replay"), exist_ok=True)
        path = os.path.join(ROOT, "out", "replay", f"{a.prop}_bounded.json")
        json.dump({"property": a.prop, "kind": "script",
                   "script": "import subprocess, sys, json\nr = subprocess.run([sys.executable, %r, '--tier', %r, '--prop', %r], capture_output=True, text=True)\n"
                             "d = json.loads(r.stdout.strip().splitlines()[-1])\nVIOLATED = d['status'] == 'violation'\nDETAIL = '\\n'.join(d.get('failures', []))\n"
                             % (os.path.abspath(__file__), a.tier, a.prop), "failures": new[:15]}, open(path, "w"), indent=1)
        out["replay"] = path
    print(json.dumps(out))
    if HUNG:
        sys.stdout.flush()
        os._exit(0)


if __name__ == "__main__":
    main()
