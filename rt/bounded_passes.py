"""Bounded stand-in for C14 and C05 (never counted as proved): every built-in pass and pairs of passes on hand-written
checker-valid models, on the real library.

--prop C14: identity rule (in-place <=> same object), modified=False => identical serialization, fixpoint within
            |model|+2 rounds, links consistent afterwards, analysis passes leave the model byte-identical even when
            the ONNX boundary (checker / shape inference / serialization of a lazy tensor) fails.
--prop C05: same outputs (onnx.reference) position by position, number/order of outputs and of non-initializer
            inputs preserved, checker-valid stays checker-valid.
Last stdout line: JSON."""
import argparse
import itertools
import json
import os
import sys
import time
import unittest.mock

import numpy as np
import onnx
import onnx.reference

sys.path.insert(0, os.path.dirname(os.path.abspath(__file__)))
import onnx_ir as ir  # noqa: E402
import onnx_ir.passes.common as P  # noqa: E402

import irstate  # noqa: E402
import models  # noqa: E402

ROOT = os.path.dirname(os.path.dirname(os.path.abspath(__file__)))


def pass_factories():
    out = {}
    for name in P.__all__:
        cls = getattr(P, name)
        try:
            cls()
            out[name] = cls
        except TypeError:
            if name == "DeduplicateHashedInitializersPass":
                out[name] = lambda cls=cls: cls(size_limit=0)
    return out


def ser(model):
    return ir.to_proto(model).SerializeToString(deterministic=True)


def universe_of(model):
    graphs = list(model.graphs()) + [f.graph if hasattr(f, "graph") else f._graph for f in model.functions.values()]
    nodes = [n for g in graphs for n in g]
    values = []
    for g in graphs:
        values += list(g.inputs) + list(g.outputs) + list(g.initializers.values())
    for n in nodes:
        values += [v for v in n.inputs if v is not None] + list(n.outputs)
    seen, uniq = set(), []
    for v in values:
        if id(v) not in seen:
            seen.add(id(v))
            uniq.append(v)
    return irstate.Universe(graphs, nodes, uniq)


def evaluate(proto, feeds):
    """onnx's reference evaluator; onnxruntime where the reference evaluator cannot run the model (function attribute defaults)."""
    try:
        sess = onnx.reference.ReferenceEvaluator(proto)
        return sess.run(None, feeds)
    except Exception:  # noqa: BLE001
        import onnxruntime as ort
        so = ort.SessionOptions()
        so.graph_optimization_level = ort.GraphOptimizationLevel.ORT_DISABLE_ALL
        so.log_severity_level = 4
        s = ort.InferenceSession(proto.SerializeToString(), so, providers=["CPUExecutionProvider"])
        return s.run(None, feeds)


def main():
    ap = argparse.ArgumentParser()
    ap.add_argument("--tier", default="quick")
    ap.add_argument("--seed", type=int, default=0)
    ap.add_argument("--prop", default="C14")
    a = ap.parse_args()
    t0 = time.time()
    rnd = np.random.default_rng(a.seed)
    passes = pass_factories()
    failures, evaluations, distinct, samples = [], 0, set(), []

    def fail(msg):
        failures.append(msg)

    combos = [(n,) for n in passes]
    if a.tier == "thorough" or a.prop == "C05":
        pairs = list(itertools.permutations(passes, 2))
        if a.tier != "thorough":
            import random
            random.Random(a.seed).shuffle(pairs)
            pairs = pairs[:60]
        combos += pairs
    for mname, mk in models.ALL.items():
        proto0 = mk()
        try:
            onnx.checker.check_model(proto0)
        except Exception:  # noqa: BLE001
            if a.prop == "C05":
                continue        # C05 quantifies over checker-valid models only
        feeds_list = models.inputs_for(mname, rnd)
        try:
            expected = [evaluate(proto0, f) for f in feeds_list]
        except Exception as e:  # noqa: BLE001
            expected = None
        for combo in combos:
            evaluations += 1
            distinct.add((mname, combo))
            model = ir.from_proto(proto0)
            before = ser(model)
            n_out = len(model.graph.outputs)
            non_init_inputs = [v.name for v in model.graph.inputs if v.name not in model.graph.initializers]
            tag = f"{mname}:{'+'.join(combo)}"
            try:
                cur = model
                any_modified = False
                for pn in combo:
                    p = passes[pn]()
                    res = p(cur)
                    if p.in_place and res.model is not cur:
                        fail(f"{tag}: in-place pass {pn} returned a different model object")
                    if not p.in_place and res.model is cur:
                        fail(f"{tag}: functional pass {pn} returned its input object")
                    s_before = ser(cur) if res.model is not cur else None
                    any_modified = any_modified or res.modified
                    cur = res.model
                after = ser(cur)
                if a.prop == "C14":
                    if len(combo) == 1 and not any_modified and after != before:
                        fail(f"{tag}: reports modified=False but the model serializes differently")
                    viol = irstate.invariant_violations(universe_of(cur))
                    if viol:
                        fail(f"{tag}: links inconsistent after the pass: {viol[0]}")
                    if len(combo) == 1:
                        # convergence
                        rounds, bound = 0, sum(1 for g in cur.graphs() for _ in g) + 2 + len(cur.functions)
                        p = passes[combo[0]]()
                        state = after
                        while True:
                            res = p(cur)
                            cur = res.model
                            rounds += 1
                            new_state = ser(cur)
                            if not res.modified:
                                if new_state != state:
                                    fail(f"{tag}: round {rounds} reports modified=False but changed the model")
                                break
                            state = new_state
                            if rounds > bound:
                                fail(f"{tag}: no fixpoint after {rounds} rounds (bound {bound})")
                                break
                else:
                    out_model = ir.to_proto(cur)
                    if len(cur.graph.outputs) != n_out:
                        fail(f"{tag}: number of graph outputs changed {n_out} -> {len(cur.graph.outputs)}")
                    now_inputs = [v.name for v in cur.graph.inputs if v.name not in cur.graph.initializers]
                    if "NameFixPass" not in combo and now_inputs != non_init_inputs and "AddInitializersToInputsPass" not in combo:
                        fail(f"{tag}: non-initializer inputs changed {non_init_inputs} -> {now_inputs}")
                    if len(now_inputs) != len(non_init_inputs) and "AddInitializersToInputsPass" not in combo:
                        fail(f"{tag}: number of non-initializer inputs changed")
                    try:
                        onnx.checker.check_model(out_model)
                    except Exception as e:  # noqa: BLE001
                        fail(f"{tag}: checker-valid model became invalid: {str(e)[:120]}")
                        continue
                    if expected is not None:
                        for feeds, exp in zip(feeds_list, expected):
                            # input names may have been fixed: feed positionally
                            names = [i.name for i in out_model.graph.input if i.name not in {t.name for t in out_model.graph.initializer}]
                            f2 = dict(zip(names, [feeds[k] for k in feeds]))
                            try:
                                got = evaluate(out_model, f2)
                            except Exception as e:  # noqa: BLE001
                                fail(f"{tag}: transformed model cannot be evaluated: {e!r}"[:200])
                                break
                            for i, (x, y) in enumerate(zip(exp, got)):
                                if not np.allclose(np.asarray(x), np.asarray(y), equal_nan=True):
                                    fail(f"{tag}: output {i} differs after the pass")
            except Exception as e:  # noqa: BLE001
                # a pass may reject a model (e.g. the checker on an invalid one); raising on a checker-valid model
                # would be a defect of the pass for C05, for C14 it is not one of the clauses
                if a.prop == "C05":
                    fail(f"{tag}: raised {e!r}"[:220])
            if len(samples) < 5:
                samples.append({"model": mname, "passes": list(combo)})
        if a.prop == "C14":
            # faults at the ONNX boundary: analysis passes must leave the model byte-identical
            for pn in ("CheckerPass", "ShapeInferencePass"):
                for fault in ("api-raises", "serialization-raises", "none"):
                    evaluations += 1
                    distinct.add((mname, pn, fault))
                    model = ir.from_proto(proto0)
                    if fault == "serialization-raises":
                        def boom():
                            raise RuntimeError("lazy tensor cannot be evaluated")
                        v = ir.Value(name="lazy_w", const_value=ir.LazyTensor(boom, dtype=ir.DataType.FLOAT, shape=ir.Shape([2, 3]), name="lazy_w"))
                        model.graph.initializers.add(v)
                    snap_order = [k for k in model.graph.initializers]
                    snap_inputs = [v.name for v in model.graph.inputs]
                    snap_types = [(v.name, repr(v.type), repr(v.shape), id(v.const_value)) for v in model.graph.initializers.values()]
                    try:
                        before = ser(model) if fault != "serialization-raises" else None
                    except Exception:  # noqa: BLE001
                        before = None
                    ctx = unittest.mock.patch("onnx.checker.check_model", side_effect=RuntimeError("injected")) if (fault == "api-raises" and pn == "CheckerPass") else \
                        unittest.mock.patch("onnx.shape_inference.infer_shapes", side_effect=RuntimeError("injected")) if fault == "api-raises" else unittest.mock.patch("os.getpid")
                    raised, res = None, None
                    with ctx:
                        try:
                            res = getattr(P, pn)()(model)
                        except Exception as e:  # noqa: BLE001
                            raised = e
                    tag = f"{mname}:{pn}:{fault}"
                    unchanged_needed = pn == "CheckerPass" or raised is not None or (res is not None and not res.modified)
                    if unchanged_needed:
                        if [k for k in model.graph.initializers] != snap_order:
                            fail(f"{tag}: initializer order changed {snap_order} -> {[k for k in model.graph.initializers]}")
                        if [v.name for v in model.graph.inputs] != snap_inputs:
                            fail(f"{tag}: graph inputs changed {snap_inputs} -> {[v.name for v in model.graph.inputs]}")
                        if [(v.name, repr(v.type), repr(v.shape), id(v.const_value)) for v in model.graph.initializers.values()] != snap_types:
                            fail(f"{tag}: initializer data/type/shape changed")
                        if before is not None:
                            try:
                                if ser(model) != before:
                                    fail(f"{tag}: model serializes differently after an analysis-only / failed call")
                            except Exception as e:  # noqa: BLE001
                                fail(f"{tag}: model cannot be serialized afterwards: {e!r}"[:200])
    known = {}
    kf = os.path.join(ROOT, "known_findings.json")
    if os.path.exists(kf):
        for k in json.load(open(kf)).get("open", []):
            if k.get("property") == a.prop and k.get("key"):
                known[k["key"]] = k
    new, known_lines = [], []
    for f in failures:
        hit = next((k for key, k in known.items() if key in f), None)
        if hit:
            if hit["what"] not in known_lines:
                known_lines.append(hit["what"])
        else:
            new.append(f)
    out = {"status": "violation" if new else "ok", "evaluations": evaluations, "distinct_nontrivial": len(distinct),
           "rule": f"{len(models.ALL)} hand-written checker-valid models x every built-in pass (and pass pairs) "
                   "+ faults injected at the ONNX call boundary; distinct = (model, pass sequence / fault); bounded, not a proof",
           "known_findings": known_lines, "samples": samples, "failures": new[:25], "wall_s": round(time.time() - t0, 2)}
    if new:
        os.makedirs(os.path.join(ROOT, "out", "replay"), exist_ok=True)
        path = os.path.join(ROOT, "out", "replay", f"{a.prop}_bounded.json")
        json.dump({"property": a.prop, "kind": "script",
                   "script": "import subprocess, sys, json\nr = subprocess.run([sys.executable, %r, '--tier', %r, '--prop', %r, '--seed', %r], capture_output=True, text=True)\n"
                             "d = json.loads(r.stdout.strip().splitlines()[-1])\nVIOLATED = d['status'] == 'violation'\nDETAIL = '\\n'.join(d.get('failures', []))\n"
                             % (os.path.abspath(__file__), a.tier, a.prop, str(a.seed)), "failures": new[:25]}, open(path, "w"), indent=1)
        out["replay"] = path
    print(json.dumps(out))


if __name__ == "__main__":
    main()
