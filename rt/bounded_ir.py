"""Bounded stand-in for C01 / C06 (never counted as proved): exhaustive short histories of public mutators over a small
universe, with the runtime form of the invariant (C01) and the unchanged-on-raise oracle (C06) evaluated after every
call on the real code.  Also the replay arbiter: a concrete failing history is written as an executable replay file.

usage: bounded_ir.py --tier quick|thorough --seed N --prop C01|C06 [--focus substr]
Last stdout line: JSON {status, evaluations, distinct_nontrivial, rule, known_findings, replay, samples}
"""
import argparse
import itertools
import json
import os
import sys
import time

sys.path.insert(0, os.path.dirname(os.path.abspath(__file__)))
import onnx_ir as ir  # noqa: E402
from onnx_ir import _core  # noqa: E402

import irstate  # noqa: E402

ROOT = os.path.dirname(os.path.dirname(os.path.abspath(__file__)))


def make_universe(kind=0):
    """g0: input v0, initializer v5 'w', node n0(v0, v5)->v2, outputs [v2]; g1: output v3; free: v1, n1(v2, None)->v4."""
    v0, v1, v3 = ir.Value(name="v0"), ir.Value(name="v1"), ir.Value(name="v3")
    v5 = ir.Value(name="w", const_value=ir.tensor([1.0], name="w"))
    n0 = ir.Node("", "Op0", inputs=[v0, v5], num_outputs=1, name="n0")
    v2 = n0.outputs[0]
    v2.name = "v2"
    g0 = ir.Graph([v0], [v2], nodes=[n0], initializers=[v5], name="g0")
    g1 = ir.Graph([], [v3], nodes=[], name="g1")
    n1 = ir.Node("", "Op1", inputs=[v2, None], num_outputs=1, name="n1")
    v4 = n1.outputs[0]
    v4.name = "v4"
    if kind == 1:
        g0.append(n1)
        g0.outputs.append(v4)
        g0.outputs.append(v2)        # duplicated output
        v6 = ir.Value(name="w2", const_value=ir.tensor([2.0], name="w2"))
        g0.initializers.add(v6)
        return irstate.Universe([g0, g1], [n0, n1], [v0, v1, v2, v3, v4, v5, v6])
    return irstate.Universe([g0, g1], [n0, n1], [v0, v1, v2, v3, v4, v5])


def ops(tier):
    """(label, function(universe)) closures; indices refer to the universe so every run uses fresh objects."""
    V = range(6)
    VN = list(V) + [None]
    I = (-3, -1, 0, 1, 2, 5)
    out = []

    def val(u, i):
        return None if i is None else u.values[i]

    for cname in ("inputs", "outputs"):
        def C(u, cname=cname):
            return getattr(u.graphs[0], cname)
        for v in VN:
            out.append((f"g0.{cname}.append(v{v})", lambda u, v=v, C=C: C(u).append(val(u, v))))
            out.append((f"g0.{cname}.remove(v{v})", lambda u, v=v, C=C: C(u).remove(val(u, v))))
            for i in (0, 1, -1, 7):
                out.append((f"g0.{cname}.insert({i},v{v})", lambda u, v=v, i=i, C=C: C(u).insert(i, val(u, v))))
                out.append((f"g0.{cname}[{i}]=v{v}", lambda u, v=v, i=i, C=C: C(u).__setitem__(i, val(u, v))))
        for i in I:
            out.append((f"g0.{cname}.pop({i})", lambda u, i=i, C=C: C(u).pop(i)))
            out.append((f"del g0.{cname}[{i}]", lambda u, i=i, C=C: C(u).__delitem__(i)))
        for a, b in itertools.product(VN, repeat=2):
            out.append((f"g0.{cname}.extend([v{a},v{b}])", lambda u, a=a, b=b, C=C: C(u).extend([val(u, a), val(u, b)])))
            out.append((f"g0.{cname}[0:1]=[v{a},v{b}]", lambda u, a=a, b=b, C=C: C(u).__setitem__(slice(0, 1), [val(u, a), val(u, b)])))
        out.append((f"g0.{cname}.clear()", lambda u, C=C: C(u).clear()))
        out.append((f"g0.{cname}*=2", lambda u, C=C: C(u).__imul__(2)))
        out.append((f"g0.{cname}.reverse()", lambda u, C=C: C(u).reverse()))
        out.append((f"g0.{cname}.sort(key=name)", lambda u, C=C: C(u).sort(key=lambda v: v.name or "")))
        out.append((f"del g0.{cname}[0:1]", lambda u, C=C: C(u).__delitem__(slice(0, 1))))
    # initializers
    def INIT(u):
        return u.graphs[0].initializers
    for v in VN:
        for k in ("w", "v1", "zz", ""):
            out.append((f"g0.initializers[{k!r}]=v{v}", lambda u, v=v, k=k: INIT(u).__setitem__(k, val(u, v))))
            out.append((f"g0.initializers.setdefault({k!r},v{v})", lambda u, v=v, k=k: INIT(u).setdefault(k, val(u, v))))
            out.append((f"g0.initializers.update({{{k!r}:v{v}}})", lambda u, v=v, k=k: INIT(u).update({k: val(u, v)})))
            out.append((f"g0.initializers|={{{k!r}:v{v}}}", lambda u, v=v, k=k: INIT(u).__ior__({k: val(u, v)})))
        out.append((f"g0.initializers.add(v{v})", lambda u, v=v: INIT(u).add(val(u, v))))
        out.append((f"g0.register_initializer(v{v})", lambda u, v=v: u.graphs[0].register_initializer(val(u, v))))
    for k in ("w", "zz"):
        out.append((f"del g0.initializers[{k!r}]", lambda u, k=k: INIT(u).__delitem__(k)))
        out.append((f"g0.initializers.pop({k!r})", lambda u, k=k: INIT(u).pop(k)))
    out.append(("g0.initializers.popitem()", lambda u: INIT(u).popitem()))
    out.append(("g0.initializers.clear()", lambda u: INIT(u).clear()))
    # values
    for v in V:
        for nmv in ("w", "v1", "fresh", None, ""):
            out.append((f"v{v}.name={nmv!r}", lambda u, v=v, nmv=nmv: setattr(u.values[v], "name", nmv)))
        for w in V:
            for rgo in (False, True):
                out.append((f"v{v}.replace_all_uses_with(v{w},{rgo})",
                            lambda u, v=v, w=w, rgo=rgo: u.values[v].replace_all_uses_with(u.values[w], replace_graph_outputs=rgo)))
    # nodes
    for n in (0, 1):
        for i in (-1, 0, 1, 2):
            for v in VN:
                out.append((f"n{n}.replace_input_with({i},v{v})", lambda u, n=n, i=i, v=v: u.nodes[n].replace_input_with(i, val(u, v))))
        for k in (-1, 0, 1, 3):
            out.append((f"n{n}.resize_inputs({k})", lambda u, n=n, k=k: u.nodes[n].resize_inputs(k)))
            out.append((f"n{n}.resize_outputs({k})", lambda u, n=n, k=k: u.nodes[n].resize_outputs(k)))
    # graphs
    for g in (0, 1):
        for n in (0, 1):
            out.append((f"g{g}.append(n{n})", lambda u, g=g, n=n: u.graphs[g].append(u.nodes[n])))
            for safe in (False, True):
                out.append((f"g{g}.remove(n{n},safe={safe})", lambda u, g=g, n=n, safe=safe: u.graphs[g].remove(u.nodes[n], safe=safe)))
            for m in (0, 1):
                out.append((f"g{g}.extend([n{n},n{m}])", lambda u, g=g, n=n, m=m: u.graphs[g].extend([u.nodes[n], u.nodes[m]])))
                out.append((f"g{g}.insert_after(n{n},[n{m}])", lambda u, g=g, n=n, m=m: u.graphs[g].insert_after(u.nodes[n], [u.nodes[m]])))
                out.append((f"g{g}.insert_before(n{n},[n{m},n{n}])", lambda u, g=g, n=n, m=m: u.graphs[g].insert_before(u.nodes[n], [u.nodes[m], u.nodes[n]])))
                out.append((f"g{g}.remove([n{n},n{m}],safe=True)", lambda u, g=g, n=n, m=m: u.graphs[g].remove([u.nodes[n], u.nodes[m]], safe=True)))
        out.append((f"g{g}.sort()", lambda u, g=g: u.graphs[g].sort()))
    # node construction
    for a, b in itertools.product((0, 1, 2, None), repeat=2):
        for outs in (None, (1,), (2,), (1, 3)):
            for g in (None, 0, 1):
                def mk(u, a=a, b=b, outs=outs, g=g):
                    n = ir.Node("", "New", inputs=[val(u, a), val(u, b)],
                                outputs=None if outs is None else [u.values[o] for o in outs],
                                graph=None if g is None else u.graphs[g])
                    u.nodes.append(n)
                    u.names[id(n)] = f"n{len(u.nodes) - 1}"
                out.append((f"Node(inputs=[v{a},v{b}],outputs={outs},graph=g{g})", mk))
    # convenience
    from onnx_ir import convenience
    for v, w in itertools.product(V, repeat=2):
        out.append((f"convenience.replace_all_uses_with(v{v},v{w})", lambda u, v=v, w=w: convenience.replace_all_uses_with(u.values[v], u.values[w])))
    if hasattr(ir._convenience, "rename_values"):
        for names in (("w", "v0"), ("v0", "w"), ("x", "x"), ("a", ""), ("v1", "zz")):
            out.append((f"rename_values([v0,v5],{names})", lambda u, names=names: ir._convenience.rename_values([u.values[0], u.values[5]], names)))
    return out


def run_history(hist, kind, prop):
    """Execute a history on a fresh universe; returns list of (step, label, exc, violations)."""
    u = make_universe(kind)
    pre = irstate.invariant_violations(u)
    assert not pre, f"initial state violates the invariant: {pre}"
    res = []
    for step, (label, f) in enumerate(hist):
        before = irstate.snapshot(u) if prop == "C06" else None
        exc = None
        try:
            f(u)
        except Exception as e:  # noqa: BLE001
            exc = e
        if prop == "C01":
            viol = irstate.invariant_violations(u)
        else:
            viol = []
            if exc is not None:
                u.absorb()
                after = irstate.snapshot(u)
                # objects created by the failed call are not "previously reachable": compare the old ones only
                viol = irstate.diff(before, {k: v for k, v in after.items() if k in before})
        res.append((step, label, exc, viol))
        if viol:
            break
    return res


def category(label, exc, viol, prop):
    """Finding key: which mutator, how it ended, what kind of disagreement - stable across argument choices."""
    import re
    op = re.sub(r"v\d+|vNone|n\d+|-?\d+|'[^']*'", "_", label)
    op = re.sub(r"g\d|gNone|g_", "g", op)
    op = re.sub(r"\(_(, _)*,?\)", "(..)", op)
    first = viol[0].split(":")[0] if prop == "C01" else "changed"
    return f"{prop}|{op}|{type(exc).__name__ if exc is not None else 'returns'}|{first}"


def main():
    ap = argparse.ArgumentParser()
    ap.add_argument("--tier", default="quick")
    ap.add_argument("--seed", type=int, default=0)
    ap.add_argument("--prop", default="C01")
    ap.add_argument("--focus", default=None)
    ap.add_argument("--replay-out", default=os.path.join(ROOT, "out", "replay"))
    a = ap.parse_args()
    t0 = time.time()
    known = {}
    kf_path = os.path.join(ROOT, "known_findings.json")
    if os.path.exists(kf_path):
        for k in json.load(open(kf_path)).get("open", []):
            if k.get("property") == a.prop and k.get("key"):
                known[k["key"]] = k
    alphabet = ops(a.tier)
    if a.focus:
        alphabet = [o for o in alphabet if a.focus in o[0]]
    evaluations = 0
    nontrivial = set()
    found = {}
    samples = []
    budget = 400 if a.tier == "quick" else 4000
    for kind in (0, 1):
        for op in alphabet:
            res = run_history([op], kind, a.prop)
            evaluations += 1
            step, label, exc, viol = res[-1]
            nontrivial.add((label, type(exc).__name__ if exc else "ok"))
            if len(samples) < 6:
                samples.append({"state": kind, "history": [label], "outcome": type(exc).__name__ if exc else "returned"})
            if viol:
                found.setdefault(category(label, exc, viol, a.prop), (kind, [label], exc, viol))
    # depth 2: a state-changing first step followed by every op of a reduced alphabet
    import random
    rnd = random.Random(a.seed)
    firsts = [o for o in alphabet if any(s in o[0] for s in ("append(v1)", "remove(n0,safe=False)", "append(n1)", "extend([v1,v1])",
                                                             "replace_input_with(0,v1)", "initializers.add(v1)", "pop(0)"))]
    seconds = alphabet if a.tier == "thorough" else rnd.sample(alphabet, min(len(alphabet), budget))
    for f1 in firsts:
        for f2 in seconds:
            for kind in ((0,) if a.tier == "quick" else (0, 1)):
                u_probe = run_history([f1], kind, a.prop)
                if u_probe[-1][3]:
                    continue       # first step already a finding (reported at depth 1)
                res = run_history([f1, f2], kind, a.prop)
                evaluations += 1
                step, label, exc, viol = res[-1]
                nontrivial.add((f1[0], label, type(exc).__name__ if exc else "ok"))
                if viol and step == 1:
                    found.setdefault(category(label, exc, viol, a.prop), (kind, [f1[0], label], exc, viol))
    known_lines, new = [], []
    for key, (kind, hist, exc, viol) in sorted(found.items()):
        if key in known:
            known_lines.append(f"{known[key]['what']} [history: {' ; '.join(hist)}]")
        else:
            new.append((key, kind, hist, exc, viol))
    out = {"status": "ok", "evaluations": evaluations, "distinct_nontrivial": len(nontrivial),
           "rule": f"every public mutator call of the alphabet ({len(alphabet)} argument instances) on 2 initial states, plus "
                   f"2-step histories (state-changing first step x {'all' if a.tier == 'thorough' else 'sampled'} second steps); "
                   "distinct = distinct (history, outcome class); bounded, not a proof",
           "known_findings": known_lines, "samples": samples, "bound": "universe: 2 graphs, 2-3 nodes, 6-7 values; history length <= 2"}
    if new:
        os.makedirs(a.replay_out, exist_ok=True)
        key, kind, hist, exc, viol = new[0]
        path = os.path.join(a.replay_out, f"{a.prop}_bounded_{abs(hash(key)) % 10**8}.json")
        script = REPLAY_TEMPLATE.format(rt=os.path.dirname(os.path.abspath(__file__)), kind=kind, hist=hist, prop=a.prop)
        json.dump({"property": a.prop, "kind": "script", "script": script, "finding_key": key, "history": hist,
                   "exception": repr(exc), "violations": viol[:6]}, open(path, "w"), indent=1)
        out.update(status="violation", replay=path, new_findings=[{"key": k, "history": h, "exception": repr(e), "what": v[:3]} for k, _, h, e, v in new[:80]])
    out["wall_s"] = round(time.time() - t0, 2)
    print(json.dumps(out))


REPLAY_TEMPLATE = '''
import sys
sys.path.insert(0, {rt!r})
import bounded_ir
alphabet = dict(bounded_ir.ops("thorough"))
hist = [(l, alphabet[l]) for l in {hist!r}]
res = bounded_ir.run_history(hist, {kind!r}, {prop!r})
step, label, exc, viol = res[-1]
VIOLATED = bool(viol)
DETAIL = "history: " + " ; ".join(l for l, _ in hist) + "\\nlast call " + ("raised " + repr(exc) if exc else "returned") + "\\n" + "\\n".join(viol[:8])
'''

if __name__ == "__main__":
    main()
