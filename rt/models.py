"""Hand-written checker-valid ONNX models used by the bounded stand-ins (C05, C14, C02, C03, C13, C15...)."""
import numpy as np
import onnx
from onnx import TensorProto, helper, numpy_helper

F = TensorProto.FLOAT


def vi(name, shape=(2, 3), dt=F):
    return helper.make_tensor_value_info(name, dt, list(shape))


def init(name, arr):
    return numpy_helper.from_array(np.asarray(arr, dtype=np.float32), name)


def m_basic():
    """Identity chains, duplicate subexpressions, duplicate initializers, unused node, Constant nodes, big initializer."""
    w = init("w", np.arange(6).reshape(2, 3))
    w2 = init("w_dup", np.arange(6).reshape(2, 3))
    big = init("big", np.ones((20, 20)))          # > 1000 bytes
    c = helper.make_node("Constant", [], ["c"], value=numpy_helper.from_array(np.full((2, 3), 2.0, dtype=np.float32), "cval"))
    nodes = [
        helper.make_node("Identity", ["x"], ["x_id"], name="id0"),
        helper.make_node("Add", ["x_id", "w"], ["a1"], name="add1"),
        helper.make_node("Add", ["x_id", "w"], ["a2"], name="add2"),      # duplicate of add1
        helper.make_node("Add", ["x", "w_dup"], ["a3"], name="add3"),
        c,
        helper.make_node("Mul", ["a1", "c"], ["m1"], name="mul1"),
        helper.make_node("Sub", ["a2", "a3"], ["s1"], name="sub1"),
        helper.make_node("ReduceSum", ["big"], ["bsum"], name="rs", keepdims=0),
        helper.make_node("Add", ["m1", "bsum"], ["m2"], name="add4"),
        helper.make_node("Neg", ["x"], ["unused"], name="dead"),
        helper.make_node("Identity", ["m2"], ["y0"], name="id_out"),
        helper.make_node("Identity", ["s1"], ["y1"], name="id_out1"),
    ]
    g = helper.make_graph(nodes, "basic", [vi("x")], [vi("y0"), vi("y1")], initializer=[w, w2, big])
    return helper.make_model(g, opset_imports=[helper.make_opsetid("", 18), helper.make_opsetid("unused.domain", 1)], ir_version=10)


def m_if():
    """Control flow with captured outer values, initializer in subgraph, output aliasing input through Identity."""
    w = init("w", np.ones((2, 3)))
    then_g = helper.make_graph(
        [helper.make_node("Add", ["x", "w"], ["t0"], name="t_add"), helper.make_node("Mul", ["t0", "k"], ["t_out"], name="t_mul")],
        "then_g", [], [vi("t_out")], initializer=[init("k", np.full((2, 3), 3.0))])
    else_g = helper.make_graph(
        [helper.make_node("Sub", ["x", "w"], ["e0"], name="e_sub"), helper.make_node("Identity", ["e0"], ["e_out"], name="e_id")],
        "else_g", [], [vi("e_out")])
    nodes = [
        helper.make_node("If", ["cond"], ["r"], name="if0", then_branch=then_g, else_branch=else_g),
        helper.make_node("Identity", ["x"], ["x_alias"], name="alias"),
        helper.make_node("Add", ["r", "x_alias"], ["y"], name="fin"),
    ]
    g = helper.make_graph(nodes, "with_if", [vi("x"), helper.make_tensor_value_info("cond", TensorProto.BOOL, [])],
                          [vi("y"), vi("x_alias")], initializer=[w])
    return helper.make_model(g, opset_imports=[helper.make_opsetid("", 18)], ir_version=10)


def m_func():
    """Model-local function with an attribute parameter, called twice; an unused function."""
    f = helper.make_function("local", "Scale", ["a"], ["b"],
                             [helper.make_node("Constant", [], ["s"], name="fc"), helper.make_node("Mul", ["a", "s"], ["b"], name="fm")],
                             [helper.make_opsetid("", 18)], attributes=["factor"])
    ref = helper.make_attribute("value_float", 0.0)
    ref.ref_attr_name = "factor"
    ref.type = onnx.AttributeProto.FLOAT
    del f.node[0].attribute[:]
    f.node[0].attribute.append(ref)
    unused = helper.make_function("local", "Unused", ["a"], ["b"], [helper.make_node("Neg", ["a"], ["b"])], [helper.make_opsetid("", 18)])
    nodes = [
        helper.make_node("Scale", ["x"], ["s1"], name="call1", domain="local", factor=2.0),
        helper.make_node("Scale", ["s1"], ["s2"], name="call2", domain="local", factor=0.5),
        helper.make_node("Add", ["s2", "x"], ["y"], name="add"),
    ]
    g = helper.make_graph(nodes, "with_func", [vi("x")], [vi("y")])
    return helper.make_model(g, functions=[f, unused], opset_imports=[helper.make_opsetid("", 18), helper.make_opsetid("local", 1)], ir_version=10)


def m_unsorted_names():
    """Unsorted node order, missing and duplicated names, optional input/outputs."""
    nodes = [
        helper.make_node("Add", ["h", "x"], ["y"], name="dup"),
        helper.make_node("Relu", ["x"], ["h"], name="dup"),
        helper.make_node("Dropout", ["y", "", ""], ["d", ""], name=""),
    ]
    g = helper.make_graph(nodes, "names", [vi("x")], [vi("d")])
    return helper.make_model(g, opset_imports=[helper.make_opsetid("", 18)], ir_version=10)


def m_stale_shape():
    """Checker-valid, but an intermediate value carries a stale shape annotation: strict shape inference raises."""
    w = init("W", np.ones((3, 400)))
    b = init("B", np.zeros((400,)))
    nodes = [helper.make_node("MatMul", ["x", "W"], ["H"], name="mm"), helper.make_node("Add", ["H", "B"], ["y"], name="add")]
    g = helper.make_graph(nodes, "stale", [vi("x")], [vi("y", (2, 400))], initializer=[w, b],
                          value_info=[vi("H", (1, 400))])
    return helper.make_model(g, opset_imports=[helper.make_opsetid("", 18)], ir_version=10)


ALL = {"basic": m_basic, "if": m_if, "func": m_func, "names": m_unsorted_names, "stale": m_stale_shape}


def inputs_for(name, rnd):
    x = rnd.standard_normal((2, 3)).astype(np.float32)
    if name == "if":
        return [{"x": x, "cond": np.array(c)} for c in (True, False)]
    if name in ("if_forwarding", "docstring_only", "unsorted_subgraph", "inline_in_branch"):
        return [{"x": x, "c": np.array(c)} for c in (True, False)]
    return [{"x": x}]


# ------------------------------------------------------------------------------------------------------------------
# Models aimed at the C05 quantifier (function attribute parameters with defaults, look-alike initializers and nodes,
# Loop bodies with captures, constants of every attribute form, optional inputs/outputs)

def m_func_defaults():
    """A function whose attribute parameter has a default; called with the default, then twice with explicit values."""
    body = helper.make_node("LeakyRelu", ["a"], ["b"], name="lr")
    ref = helper.make_attribute("alpha", 0.0)
    ref.ref_attr_name = "alpha"
    ref.type = onnx.AttributeProto.FLOAT
    ref.ClearField("f")
    body.attribute.append(ref)
    f = helper.make_function("local", "scale", ["a"], ["b"], [body], [helper.make_opsetid("", 18)],
                             attribute_protos=[helper.make_attribute("alpha", 2.0)])
    # IR 10 functions may carry value_info for their inputs and intermediate values
    f.value_info.extend([vi("a"), vi("b")])
    nodes = [
        helper.make_node("scale", ["x"], ["t"], name="c_default", domain="local"),
        helper.make_node("scale", ["t"], ["u"], name="c_quarter", domain="local", alpha=0.25),
        helper.make_node("scale", ["x"], ["w"], name="c_three", domain="local", alpha=3.0),
        helper.make_node("Add", ["u", "w"], ["y"], name="add"),
    ]
    g = helper.make_graph(nodes, "func_defaults", [vi("x")], [vi("y"), vi("u")])
    return helper.make_model(g, functions=[f], opset_imports=[helper.make_opsetid("", 18), helper.make_opsetid("local", 1)], ir_version=10)


def m_lookalike_initializers():
    """Initializers with equal shape and equal bytes but different element types; equal values of different shape."""
    zf = numpy_helper.from_array(np.zeros((2, 3), dtype=np.float32), "zero_f")
    zi = numpy_helper.from_array(np.zeros((2, 3), dtype=np.int32), "zero_i")
    pf = numpy_helper.from_array(np.array([1.0, 2.0], dtype=np.float32), "pat_f")
    pi = numpy_helper.from_array(np.array([1065353216, 1073741824], dtype=np.int32), "pat_i")
    row = numpy_helper.from_array(np.arange(6, dtype=np.float32).reshape(1, 6), "row")
    col = numpy_helper.from_array(np.arange(6, dtype=np.float32).reshape(6, 1), "col")
    nodes = [
        helper.make_node("Add", ["x", "zero_f"], ["a"], name="add_f"),
        helper.make_node("Cast", ["zero_i"], ["zc"], name="cast_i", to=F),
        helper.make_node("Add", ["a", "zc"], ["y0"], name="add_i"),
        helper.make_node("Cast", ["pat_i"], ["pc"], name="cast_p", to=F),
        helper.make_node("Add", ["pc", "pat_f"], ["y1"], name="add_p"),
        helper.make_node("MatMul", ["row", "col"], ["y2"], name="mm"),
    ]
    g = helper.make_graph(nodes, "lookalike", [vi("x")], [vi("y0"), vi("y1", (2,)), vi("y2", (1, 1))], initializer=[zf, zi, pf, pi, row, col])
    return helper.make_model(g, opset_imports=[helper.make_opsetid("", 18)], ir_version=10)


def m_lookalike_nodes():
    """Nodes that differ only in an attribute value, in input order, in the number of outputs, or in an optional input."""
    nodes = [
        helper.make_node("LeakyRelu", ["x"], ["l1"], name="l1", alpha=0.1),
        helper.make_node("LeakyRelu", ["x"], ["l2"], name="l2", alpha=0.2),
        helper.make_node("Sub", ["l1", "l2"], ["s1"], name="s1"),
        helper.make_node("Sub", ["l2", "l1"], ["s2"], name="s2"),
        helper.make_node("Split", ["x"], ["p1", "p2", "p3"], name="split3", axis=1, num_outputs=3),
        helper.make_node("Split", ["x"], ["q1"], name="split1", axis=1, num_outputs=1),
        helper.make_node("Clip", ["x", "", "hi"], ["c1"], name="clip_hi"),
        helper.make_node("Clip", ["x", "hi", ""], ["c2"], name="clip_lo"),
        helper.make_node("Add", ["s1", "c1"], ["y0"], name="o0"),
        helper.make_node("Add", ["s2", "c2"], ["y1"], name="o1"),
        helper.make_node("Add", ["p1", "p3"], ["y2"], name="o2"),
        helper.make_node("Identity", ["q1"], ["y3"], name="o3"),
    ]
    hi = numpy_helper.from_array(np.array(0.5, dtype=np.float32), "hi")
    g = helper.make_graph(nodes, "lookalike_nodes", [vi("x")], [vi("y0"), vi("y1"), vi("y2", (2, 1)), vi("y3")], initializer=[hi])
    return helper.make_model(g, opset_imports=[helper.make_opsetid("", 18)], ir_version=10)


def m_loop():
    """Loop whose body captures outer values (a node output and an initializer), forwards a body input through Identity and
    produces a scan output; an Identity between a graph input and a graph output outside."""
    body = helper.make_graph(
        [helper.make_node("Identity", ["cond_in"], ["cond_out"], name="b_cond"),
         helper.make_node("Add", ["acc", "outer"], ["acc1"], name="b_add"),
         helper.make_node("Mul", ["acc1", "k"], ["acc_out"], name="b_mul"),
         helper.make_node("Identity", ["acc_out"], ["scan"], name="b_scan")],
        "body",
        [helper.make_tensor_value_info("i", TensorProto.INT64, []), helper.make_tensor_value_info("cond_in", TensorProto.BOOL, []), vi("acc")],
        [helper.make_tensor_value_info("cond_out", TensorProto.BOOL, []), vi("acc_out"), vi("scan")])
    nodes = [
        helper.make_node("Relu", ["x"], ["outer"], name="relu"),
        helper.make_node("Loop", ["trip", "cond0", "x"], ["final", "scans"], name="loop", body=body),
        helper.make_node("Identity", ["x"], ["x_out"], name="in_to_out"),
        helper.make_node("ReduceSum", ["scans"], ["y"], name="rs", keepdims=0),
    ]
    inits = [numpy_helper.from_array(np.array(3, dtype=np.int64), "trip"), numpy_helper.from_array(np.array(True), "cond0"),
             init("k", np.full((2, 3), 0.5))]
    g = helper.make_graph(nodes, "with_loop", [vi("x")], [vi("final"), vi("y", ()), vi("x_out")], initializer=inits)
    return helper.make_model(g, opset_imports=[helper.make_opsetid("", 18)], ir_version=10)


def m_constants():
    """Constant nodes of every attribute form."""
    nodes = [
        helper.make_node("Constant", [], ["cf"], name="cf", value_float=1.5),
        helper.make_node("Constant", [], ["ci"], name="ci", value_int=2),
        helper.make_node("Constant", [], ["cfs"], name="cfs", value_floats=[1.0, 2.0, 3.0]),
        helper.make_node("Constant", [], ["cis"], name="cis", value_ints=[0, 1]),
        helper.make_node("Constant", [], ["ct"], name="ct", value=numpy_helper.from_array(np.full((2, 3), 2.0, dtype=np.float32), "ctv")),
        helper.make_node("Mul", ["x", "cf"], ["a"], name="m1"),
        helper.make_node("Cast", ["ci"], ["cif"], name="c1", to=F),
        helper.make_node("Add", ["a", "cif"], ["b"], name="a1"),
        helper.make_node("Add", ["b", "cfs"], ["c"], name="a2"),
        helper.make_node("ReduceSum", ["c", "cis"], ["d"], name="rs", keepdims=0),
        helper.make_node("Mul", ["x", "ct"], ["e"], name="m2"),
        helper.make_node("Add", ["e", "d"], ["y"], name="a3"),
    ]
    g = helper.make_graph(nodes, "constants", [vi("x")], [vi("y")])
    return helper.make_model(g, opset_imports=[helper.make_opsetid("", 18)], ir_version=10)


ALL.update({"func_defaults": m_func_defaults, "lookalike_inits": m_lookalike_initializers, "lookalike_nodes": m_lookalike_nodes,
            "loop": m_loop, "constants": m_constants})


def m_identity_io():
    """Identity straight from a graph input (symbolic shape) to a graph output (static shape): the node must be kept and
    neither value's declared type/shape may change."""
    nodes = [helper.make_node("Identity", ["x"], ["y"], name="io_id"),
             helper.make_node("Identity", ["w"], ["w_out"], name="init_id")]
    g = helper.make_graph(nodes, "identity_io", [helper.make_tensor_value_info("x", F, ["N", 3])],
                          [vi("y", (2, 3)), vi("w_out", (2, 3))], initializer=[init("w", np.ones((2, 3)))])
    return helper.make_model(g, opset_imports=[helper.make_opsetid("", 18)], ir_version=10)


ALL["identity_io"] = m_identity_io


def m_shadowing():
    """Nested graphs whose own values (a body input, a branch-local node output) carry the same name as a value of the
    enclosing graph: name resolution must prefer the innermost scope.  (Not offered to the passes: used by the serde checks.)"""
    body = helper.make_graph(
        [helper.make_node("Identity", ["cond_in"], ["cond_out"], name="b_cond"),
         helper.make_node("Neg", ["h"], ["h_next"], name="b_neg")],          # `h` is the BODY input here, not the outer Relu output
        "body",
        [helper.make_tensor_value_info("i", TensorProto.INT64, []), helper.make_tensor_value_info("cond_in", TensorProto.BOOL, []), vi("h")],
        [helper.make_tensor_value_info("cond_out", TensorProto.BOOL, []), vi("h_next")])
    deep = helper.make_graph([helper.make_node("Abs", ["t"], ["deep_out"], name="d_abs")], "deep", [], [vi("deep_out")])
    then_g = helper.make_graph(
        [helper.make_node("Sub", ["x", "x"], ["t"], name="t_local"),          # branch-local `t` shadows the outer `t`
         helper.make_node("If", ["c"], ["t_out"], name="inner_if", then_branch=deep, else_branch=deep)],
        "then_g", [], [vi("t_out")])
    else_g = helper.make_graph([helper.make_node("Identity", ["t"], ["e_out"], name="e_id")], "else_g", [], [vi("e_out")])   # outer `t`
    nodes = [
        helper.make_node("Relu", ["x"], ["h"], name="outer_h"),
        helper.make_node("Add", ["x", "x"], ["t"], name="outer_t"),
        helper.make_node("Loop", ["trip", "c", "x"], ["h_final"], name="loop", body=body),
        helper.make_node("If", ["c"], ["r"], name="if0", then_branch=then_g, else_branch=else_g),
        helper.make_node("Add", ["h", "h_final"], ["s"], name="sum1"),
        helper.make_node("Add", ["s", "r"], ["y"], name="sum2"),
    ]
    inits = [numpy_helper.from_array(np.array(2, dtype=np.int64), "trip"), numpy_helper.from_array(np.array(True), "c")]
    g = helper.make_graph(nodes, "shadowing", [vi("x")], [vi("y")], initializer=inits)
    m = helper.make_model(g, opset_imports=[helper.make_opsetid("", 18)], ir_version=11)
    return m


SERDE_EXTRA = {"shadowing": m_shadowing}


def m_if_forwarding():
    """If branches that forward values through Identity: an OUTER-scope node output, an outer graph input, a local value."""
    then_g = helper.make_graph([helper.make_node("Identity", ["h"], ["t_out"], name="t_id")], "then_fwd", [], [vi("t_out")])
    else_g = helper.make_graph([helper.make_node("Neg", ["h"], ["e0"], name="e_neg"), helper.make_node("Identity", ["e0"], ["e_out"], name="e_id")],
                               "else_fwd", [], [vi("e_out")])
    then2 = helper.make_graph([helper.make_node("Identity", ["x"], ["t2_out"], name="t2_id")], "then_in", [], [vi("t2_out")])
    else2 = helper.make_graph([helper.make_node("Identity", ["h"], ["e2_mid"], name="e2_id"), helper.make_node("Abs", ["e2_mid"], ["e2_out"], name="e2_abs")],
                              "else_in", [], [vi("e2_out")])
    nodes = [helper.make_node("Relu", ["x"], ["h"], name="relu"),
             helper.make_node("If", ["c"], ["y0"], name="if_a", then_branch=then_g, else_branch=else_g),
             helper.make_node("If", ["c"], ["y1"], name="if_b", then_branch=then2, else_branch=else2)]
    g = helper.make_graph(nodes, "if_forwarding", [vi("x"), helper.make_tensor_value_info("c", TensorProto.BOOL, [])], [vi("y0"), vi("y1")])
    return helper.make_model(g, opset_imports=[helper.make_opsetid("", 18)], ir_version=10)


ALL["if_forwarding"] = m_if_forwarding


def m_docstring_only():
    """A node (and a node inside a branch) that carries only a doc_string - no metadata_props anywhere."""
    then_g = helper.make_graph([helper.make_node("Neg", ["x"], ["t_out"], name="t_neg", doc_string="documented inner node")], "then_doc", [], [vi("t_out")])
    else_g = helper.make_graph([helper.make_node("Abs", ["x"], ["e_out"], name="e_abs")], "else_doc", [], [vi("e_out")])
    nodes = [helper.make_node("Relu", ["x"], ["h"], name="relu", doc_string="documented node"),
             helper.make_node("If", ["c"], ["r"], name="if0", then_branch=then_g, else_branch=else_g),
             helper.make_node("Add", ["h", "r"], ["y"], name="add")]
    g = helper.make_graph(nodes, "docstring_only", [vi("x"), helper.make_tensor_value_info("c", TensorProto.BOOL, [])], [vi("y")])
    return helper.make_model(g, opset_imports=[helper.make_opsetid("", 18)], ir_version=10)


def m_unsorted_subgraph():
    """The main graph is in order; only the nodes of a branch are out of order (not checker-valid: used by the pass-contract
    checks, skipped by the semantic ones)."""
    then_g = helper.make_graph([helper.make_node("Abs", ["t0"], ["t_out"], name="t_abs"), helper.make_node("Neg", ["x"], ["t0"], name="t_neg")],
                               "then_unsorted", [], [vi("t_out")])
    else_g = helper.make_graph([helper.make_node("Abs", ["x"], ["e_out"], name="e_abs")], "else_sorted", [], [vi("e_out")])
    nodes = [helper.make_node("Relu", ["x"], ["h"], name="relu"),
             helper.make_node("If", ["c"], ["r"], name="if0", then_branch=then_g, else_branch=else_g),
             helper.make_node("Add", ["h", "r"], ["y"], name="add")]
    g = helper.make_graph(nodes, "unsorted_subgraph", [vi("x"), helper.make_tensor_value_info("c", TensorProto.BOOL, [])], [vi("y")])
    return helper.make_model(g, opset_imports=[helper.make_opsetid("", 18)], ir_version=10)


ALL.update({"docstring_only": m_docstring_only, "unsorted_subgraph": m_unsorted_subgraph})


def m_denotations():
    """Type and dimension denotations on every carrier: a graph input, a NON-input initializer's value-info, a node output."""
    def vi_den(name, shape, type_den, dim_dens):
        v = helper.make_tensor_value_info(name, F, list(shape))
        v.type.denotation = type_den
        for d, den in zip(v.type.tensor_type.shape.dim, dim_dens):
            if den:
                d.denotation = den
        return v
    w = init("w_den", np.ones((2, 3)))
    nodes = [helper.make_node("Add", ["x", "w_den"], ["h"], name="add"), helper.make_node("Relu", ["h"], ["y"], name="relu")]
    g = helper.make_graph(nodes, "denotations", [vi_den("x", (2, 3), "IMAGE", ("DATA_BATCH", "DATA_CHANNEL"))],
                          [vi_den("y", (2, 3), "", ("", "DATA_FEATURE"))], initializer=[w],
                          value_info=[vi_den("w_den", (2, 3), "TENSOR", ("FILTER_OUT_CHANNEL", "FILTER_IN_CHANNEL")), vi_den("h", (2, 3), "AUDIO", ("DATA_BATCH", ""))])
    return helper.make_model(g, opset_imports=[helper.make_opsetid("", 18)], ir_version=10)


def m_custom_commutative_name():
    """A model-local function that merely SHARES its name with a commutative standard op (local::Mul computes a - 2*b) called
    with swapped arguments; a float Sum whose operands are given in two orders."""
    f = helper.make_function("local", "Mul", ["a", "b"], ["c"],
                             [helper.make_node("Add", ["b", "b"], ["b2"], name="f_dbl"), helper.make_node("Sub", ["a", "b2"], ["c"], name="f_sub")],
                             [helper.make_opsetid("", 18)])
    nodes = [helper.make_node("Relu", ["x"], ["p"], name="relu"), helper.make_node("Neg", ["x"], ["q"], name="neg"),
             helper.make_node("Mul", ["p", "q"], ["m1"], name="call_pq", domain="local"),
             helper.make_node("Mul", ["q", "p"], ["m2"], name="call_qp", domain="local"),
             helper.make_node("Mul", ["p", "q"], ["s1"], name="std_pq"), helper.make_node("Mul", ["q", "p"], ["s2"], name="std_qp"),
             helper.make_node("Add", ["m1", "s1"], ["y0"], name="o0"), helper.make_node("Add", ["m2", "s2"], ["y1"], name="o1")]
    g = helper.make_graph(nodes, "custom_commutative", [vi("x")], [vi("y0"), vi("y1")])
    return helper.make_model(g, functions=[f], opset_imports=[helper.make_opsetid("", 18), helper.make_opsetid("local", 1)], ir_version=10)


def m_inline_in_branch():
    """A function called INSIDE an If branch; a value inside the function body carries the name of an outer value (`t`) that
    the branch uses after the call."""
    f = helper.make_function("local", "twice", ["a"], ["b"],
                             [helper.make_node("Add", ["a", "a"], ["t"], name="f_add"), helper.make_node("Identity", ["t"], ["b"], name="f_id")],
                             [helper.make_opsetid("", 18)])
    then_g = helper.make_graph([helper.make_node("twice", ["x"], ["d"], name="call", domain="local"),
                                helper.make_node("Add", ["d", "t"], ["t_out"], name="use_outer_t")], "then_call", [], [vi("t_out")])
    else_g = helper.make_graph([helper.make_node("twice", ["t"], ["e0"], name="call2", domain="local"),
                                helper.make_node("Sub", ["e0", "t"], ["e_out"], name="use_outer_t2")], "else_call", [], [vi("e_out")])
    nodes = [helper.make_node("Neg", ["x"], ["t"], name="outer_t"),
             helper.make_node("If", ["c"], ["y"], name="if0", then_branch=then_g, else_branch=else_g)]
    g = helper.make_graph(nodes, "inline_in_branch", [vi("x"), helper.make_tensor_value_info("c", TensorProto.BOOL, [])], [vi("y")])
    return helper.make_model(g, functions=[f], opset_imports=[helper.make_opsetid("", 18), helper.make_opsetid("local", 1)], ir_version=10)


ALL.update({"denotations": m_denotations, "custom_commutative": m_custom_commutative_name, "inline_in_branch": m_inline_in_branch})


def m_optional_outputs():
    """A node with three outputs whose MIDDLE (optional) output is unused while the last one is used - and nothing else
    that an unused-removal pass could remove."""
    scale = init("ln_scale", np.ones((3,)))
    nodes = [helper.make_node("LayerNormalization", ["x", "ln_scale"], ["ln_y", "ln_mean", "ln_inv"], name="ln1", axis=-1),
             helper.make_node("Mul", ["ln_y", "ln_inv"], ["y"], name="mul")]
    g = helper.make_graph(nodes, "optional_outputs", [vi("x")], [vi("y")], initializer=[scale])
    return helper.make_model(g, opset_imports=[helper.make_opsetid("", 18)], ir_version=10)


def m_optional_outputs_trailing():
    """Both optional outputs unused (trailing): they are trimmed."""
    scale = init("ln_scale", np.ones((3,)))
    nodes = [helper.make_node("LayerNormalization", ["x", "ln_scale"], ["ln2_y", "ln2_mean", "ln2_inv"], name="ln2", axis=-1),
             helper.make_node("Relu", ["ln2_y"], ["y"], name="relu")]
    g = helper.make_graph(nodes, "optional_outputs_trailing", [vi("x")], [vi("y")], initializer=[scale])
    return helper.make_model(g, opset_imports=[helper.make_opsetid("", 18)], ir_version=10)


ALL.update({"optional_outputs": m_optional_outputs, "optional_outputs_trailing": m_optional_outputs_trailing})
