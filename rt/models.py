"""Hand-written checker-valid ONNX models used by the bounded stand-ins (C05, C14, C02, C03, C13, C15...)."""
import numpy as np
import onnx
from onnx import TensorProto, helper, numpy_helper

F = TensorProto.FLOAT


def vi(name, shape=(2, 3), dt=F):
    return helper.make_tensor_value_info(name, dt, list(shape))


def init(name, arr):
    return numpy_helper.from_array(np.asarray(arr, dtype=np.float32), name)


def m_basic():
    """Identity chains, duplicate subexpressions, duplicate initializers, unused node, Constant nodes, big initializer."""
    w = init("w", np.arange(6).reshape(2, 3))
    w2 = init("w_dup", np.arange(6).reshape(2, 3))
    big = init("big", np.ones((20, 20)))          # > 1000 bytes
    c = helper.make_node("Constant", [], ["c"], value=numpy_helper.from_array(np.full((2, 3), 2.0, dtype=np.float32), "cval"))
    nodes = [
        helper.make_node("Identity", ["x"], ["x_id"], name="id0"),
        helper.make_node("Add", ["x_id", "w"], ["a1"], name="add1"),
        helper.make_node("Add", ["x_id", "w"], ["a2"], name="add2"),      # duplicate of add1
        helper.make_node("Add", ["x", "w_dup"], ["a3"], name="add3"),
        c,
        helper.make_node("Mul", ["a1", "c"], ["m1"], name="mul1"),
        helper.make_node("Sub", ["a2", "a3"], ["s1"], name="sub1"),
        helper.make_node("ReduceSum", ["big"], ["bsum"], name="rs", keepdims=0),
        helper.make_node("Add", ["m1", "bsum"], ["m2"], name="add4"),
        helper.make_node("Neg", ["x"], ["unused"], name="dead"),
        helper.make_node("Identity", ["m2"], ["y0"], name="id_out"),
        helper.make_node("Identity", ["s1"], ["y1"], name="id_out1"),
    ]
    g = helper.make_graph(nodes, "basic", [vi("x")], [vi("y0"), vi("y1")], initializer=[w, w2, big])
    return helper.make_model(g, opset_imports=[helper.make_opsetid("", 18), helper.make_opsetid("unused.domain", 1)], ir_version=10)


def m_if():
    """Control flow with captured outer values, initializer in subgraph, output aliasing input through Identity."""
    w = init("w", np.ones((2, 3)))
    then_g = helper.make_graph(
        [helper.make_node("Add", ["x", "w"], ["t0"], name="t_add"), helper.make_node("Mul", ["t0", "k"], ["t_out"], name="t_mul")],
        "then_g", [], [vi("t_out")], initializer=[init("k", np.full((2, 3), 3.0))])
    else_g = helper.make_graph(
        [helper.make_node("Sub", ["x", "w"], ["e0"], name="e_sub"), helper.make_node("Identity", ["e0"], ["e_out"], name="e_id")],
        "else_g", [], [vi("e_out")])
    nodes = [
        helper.make_node("If", ["cond"], ["r"], name="if0", then_branch=then_g, else_branch=else_g),
        helper.make_node("Identity", ["x"], ["x_alias"], name="alias"),
        helper.make_node("Add", ["r", "x_alias"], ["y"], name="fin"),
    ]
    g = helper.make_graph(nodes, "with_if", [vi("x"), helper.make_tensor_value_info("cond", TensorProto.BOOL, [])],
                          [vi("y"), vi("x_alias")], initializer=[w])
    return helper.make_model(g, opset_imports=[helper.make_opsetid("", 18)], ir_version=10)


def m_func():
    """Model-local function with an attribute parameter, called twice; an unused function."""
    f = helper.make_function("local", "Scale", ["a"], ["b"],
                             [helper.make_node("Constant", [], ["s"], name="fc"), helper.make_node("Mul", ["a", "s"], ["b"], name="fm")],
                             [helper.make_opsetid("", 18)], attributes=["factor"])
    ref = helper.make_attribute("value_float", 0.0)
    ref.ref_attr_name = "factor"
    ref.type = onnx.AttributeProto.FLOAT
    del f.node[0].attribute[:]
    f.node[0].attribute.append(ref)
    unused = helper.make_function("local", "Unused", ["a"], ["b"], [helper.make_node("Neg", ["a"], ["b"])], [helper.make_opsetid("", 18)])
    nodes = [
        helper.make_node("Scale", ["x"], ["s1"], name="call1", domain="local", factor=2.0),
        helper.make_node("Scale", ["s1"], ["s2"], name="call2", domain="local", factor=0.5),
        helper.make_node("Add", ["s2", "x"], ["y"], name="add"),
    ]
    g = helper.make_graph(nodes, "with_func", [vi("x")], [vi("y")])
    return helper.make_model(g, functions=[f, unused], opset_imports=[helper.make_opsetid("", 18), helper.make_opsetid("local", 1)], ir_version=10)


def m_unsorted_names():
    """Unsorted node order, missing and duplicated names, optional input/outputs."""
    nodes = [
        helper.make_node("Add", ["h", "x"], ["y"], name="dup"),
        helper.make_node("Relu", ["x"], ["h"], name="dup"),
        helper.make_node("Dropout", ["y", "", ""], ["d", ""], name=""),
    ]
    g = helper.make_graph(nodes, "names", [vi("x")], [vi("d")])
    return helper.make_model(g, opset_imports=[helper.make_opsetid("", 18)], ir_version=10)


def m_stale_shape():
    """Checker-valid, but an intermediate value carries a stale shape annotation: strict shape inference raises."""
    w = init("W", np.ones((3, 400)))
    b = init("B", np.zeros((400,)))
    nodes = [helper.make_node("MatMul", ["x", "W"], ["H"], name="mm"), helper.make_node("Add", ["H", "B"], ["y"], name="add")]
    g = helper.make_graph(nodes, "stale", [vi("x")], [vi("y", (2, 400))], initializer=[w, b],
                          value_info=[vi("H", (1, 400))])
    return helper.make_model(g, opset_imports=[helper.make_opsetid("", 18)], ir_version=10)


ALL = {"basic": m_basic, "if": m_if, "func": m_func, "names": m_unsorted_names, "stale": m_stale_shape}


def inputs_for(name, rnd):
    x = rnd.standard_normal((2, 3)).astype(np.float32)
    if name == "if":
        return [{"x": x, "cond": np.array(c)} for c in (True, False)]
    return [{"x": x}]
