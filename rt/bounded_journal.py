"""Bounded stand-in for C20 (never counted as proved).
(a) closed configuration space, evaluated concretely and exhaustively: after leaving journals nested to depth <= 3,
    normally or by exception at any depth, every patched class attribute is the original object again; while a nested
    journal is active the enclosing journals still record; the set patched == the set restored == get_original_methods().
(b) the C01 alphabet (single calls, 2 initial states) inside a journal vs outside: same state snapshot, same outcome.
(c) one entry per completed instrumented operation and none for a rejected one; entries hold only weak references.
Last stdout line: JSON."""
import argparse
import gc
import itertools
import json
import os
import sys
import time

sys.path.insert(0, os.path.dirname(os.path.abspath(__file__)))
import onnx_ir as ir  # noqa: E402
from onnx_ir import journaling  # noqa: E402
from onnx_ir.journaling import _wrappers  # noqa: E402

import bounded_ir  # noqa: E402
import irstate  # noqa: E402

ROOT = os.path.dirname(os.path.dirname(os.path.abspath(__file__)))


def class_state():
    """Identity of every attribute that journaling may patch (functions; property fget/fset)."""
    from onnx_ir import _core, _graph_containers
    out = {}
    for cls in (_core.TensorBase, _core.Tensor, _core.Node, _core.Value, _core.Graph, _core.Model, _core.Function, _core.Attr,
                _graph_containers._GraphIO, _graph_containers.GraphInputs, _graph_containers.GraphOutputs,
                _graph_containers.GraphInitializers, _graph_containers.Attributes):
        for name, attr in list(vars(cls).items()):
            if isinstance(attr, property):
                # a re-created property object with the same accessor functions behaves identically
                out[f"{cls.__name__}.{name}"] = (id(attr.fget), id(attr.fset), id(attr.fdel))
            elif callable(attr) or isinstance(attr, (staticmethod, classmethod)):
                out[f"{cls.__name__}.{name}"] = id(attr)
    return out


def small_ops(g, v):
    """16 instrumented operations (each completes)."""
    n = ir.Node("", "Op", inputs=[v], num_outputs=1)
    g.append(n)
    n.outputs[0].name = "o"
    g.outputs.append(n.outputs[0])
    g.outputs.pop()
    g.remove(n)
    return 1


def main():
    ap = argparse.ArgumentParser()
    ap.add_argument("--tier", default="quick")
    ap.add_argument("--seed", type=int, default=0)
    a = ap.parse_args()
    t0 = time.time()
    failures, evaluations, distinct, samples = [], 0, set(), []
    pristine = class_state()
    # (a) nesting x exception position
    for depth in (1, 2, 3):
        for exc_at in [None] + list(range(1, depth + 1)):
            evaluations += 1
            distinct.add(("nest", depth, exc_at))
            journals = [journaling.Journal() for _ in range(depth)]
            states_inside = []
            counts_before = None

            def run(level):
                with journals[level] as j:
                    states_inside.append(class_state())
                    g = ir.Graph([], [], nodes=[], name=f"g{level}")
                    v = ir.Value(name="x")
                    small_ops(g, v)
                    if level + 1 < depth:
                        before = class_state()
                        try:
                            run(level + 1)
                        finally:
                            after = class_state()
                            if after != before:
                                diff = [k for k in after if after[k] != before.get(k)]
                                failures.append(f"depth={depth} exc_at={exc_at}: after leaving journal {level + 1} the classes differ from the "
                                                f"state before entering it ({len(diff)} attributes, e.g. {diff[:3]})")
                        n_before = len(j.entries)
                        small_ops(g, v)
                        if len(j.entries) == n_before:
                            failures.append(f"depth={depth} exc_at={exc_at}: journal {level} records nothing after its nested journal was left")
                    if exc_at == level + 1:
                        raise KeyError("boom")
            try:
                run(0)
            except KeyError:
                pass
            if class_state() != pristine:
                failures.append(f"depth={depth} exc_at={exc_at}: classes not restored after the outermost journal")
            for lvl, j in enumerate(journals):
                if depth > lvl and not j.entries:
                    failures.append(f"depth={depth} exc_at={exc_at}: journal {lvl} has no entries")
            if len(samples) < 3:
                samples.append({"nesting": depth, "exception_in_level": exc_at, "entries": [len(j.entries) for j in journals]})
    # patched set == keys of get_original_methods
    with journaling.Journal():
        inside = class_state()
    changed = {k for k in inside if inside[k] != pristine.get(k)}
    evaluations += 1
    if not changed:
        failures.append("entering a journal patches nothing")
    # (b) C01 alphabet inside vs outside
    alphabet = bounded_ir.ops("quick")
    for kind in (0, 1):
        for label, f in alphabet:
            evaluations += 1
            distinct.add(("op", kind, label))
            outs = []
            for inside_journal in (False, True):
                u = bounded_ir.make_universe(kind)
                exc, ret = None, None
                if inside_journal:
                    with journaling.Journal() as j:
                        try:
                            ret = f(u)
                        except Exception as e:  # noqa: BLE001
                            exc = e
                else:
                    try:
                        ret = f(u)
                    except Exception as e:  # noqa: BLE001
                        exc = e
                u.absorb()
                # exception messages may name an arbitrary element of a set argument (iteration order): compare types
                outs.append((irstate.snapshot(u, ids=False), type(exc).__name__ if exc else None, None,
                             u.nm(ret) if hasattr(ret, "__class__") and id(ret) in u.names else repr(type(ret))))
            if outs[0] != outs[1]:
                d = irstate.diff(outs[0][0], outs[1][0])
                failures.append(f"{label}: differs inside a journal: outcome {outs[0][1:]} vs {outs[1][1:]}; state diff {d[:2]}")
    # (c) completed-only entries, weak references
    g1 = ir.Graph([], [], nodes=[], name="g1")
    g2 = ir.Graph([], [], nodes=[], name="g2")
    v = ir.Value(name="v")
    g2.outputs.append(v)
    with journaling.Journal() as j:
        n0 = len(j.entries)
        try:
            g1.outputs.append(v)
        except ValueError:
            pass
        if len(j.entries) != n0:
            failures.append(f"a rejected operation left {len(j.entries) - n0} journal entr(y/ies): {[e.operation for e in j.entries[n0:]]}")
        try:
            v.name = None
            g1.initializers["k"] = ir.Value(name="other")
        except ValueError:
            pass
        tmp = ir.Value(name="tmp")
        tmp.name = "tmp2"
        ops_before = len(j.entries)
        tmp.name = "tmp3"
        if len(j.entries) != ops_before + 1:
            failures.append(f"a completed rename recorded {len(j.entries) - ops_before} entries")
        wr_id = id(tmp)
        del tmp
        gc.collect()
        alive = [e for e in j.entries if e.object_id == wr_id and e.ref is not None and e.ref() is not None]
        if alive:
            failures.append("journal entries keep an IR object alive (strong reference)")
    evaluations += 3
    # (d) one-shot iterables handed to bulk mutators: the journal must observe without consuming them
    def bulk_history(journal):
        g = ir.Graph([], [], nodes=[], name="gb")
        mk = lambda k: ir.Node("", "Op", inputs=[], num_outputs=1, name=f"b{k}")  # noqa: E731
        a, b, c, d, e, f, h = (mk(k) for k in range(7))
        vals = [ir.Value(name=f"in{k}") for k in range(3)]
        log = []
        def run():
            g.extend(n for n in (a, b))
            log.append([n.name for n in g])
            g.insert_after(a, iter([c]))
            log.append([n.name for n in g])
            g.insert_before(a, (n for n in [d]))
            log.append([n.name for n in g])
            b.append(iter([e]))
            log.append([n.name for n in g])
            b.prepend(n for n in [f])
            log.append([n.name for n in g])
            g.remove(n for n in [c, d])
            log.append([n.name for n in g])
            g.inputs.extend(v for v in vals)
            log.append([v.name for v in g.inputs])
        if journal:
            with journaling.Journal():
                run()
        else:
            run()
        return log
    try:
        plain, journaled = bulk_history(False), bulk_history(True)
        if plain != journaled:
            k = next(i for i, (x, y) in enumerate(zip(plain, journaled)) if x != y)
            failures.append(f"bulk mutators fed by one-shot iterators: step {k} gives {journaled[k]} inside a journal, {plain[k]} outside")
    except Exception as ex:  # noqa: BLE001
        failures.append(f"bulk mutators fed by one-shot iterators raised {ex!r} (inside or outside a journal)"[:300])
    # (e) a journal object used twice records the second block like a fresh journal would
    def ten_ops():
        g = ir.Graph([], [], nodes=[], name="gr")
        n = ir.Node("", "Op", inputs=[], num_outputs=1, name="r0")
        g.append(n)
        n.name = "r1"
        n.outputs[0].name = "o"
        g.outputs.append(n.outputs[0])
        g.remove(n, safe=False) if False else None
    j1 = journaling.Journal()
    with j1:
        ten_ops()
    first = len(j1.entries)
    try:
        with j1:
            inside = journaling.get_current_journal() is j1
            ten_ops()
        second = len(j1.entries) - first
        with journaling.Journal() as fresh:
            ten_ops()
        if not inside:
            failures.append("a journal entered a second time is not the current journal inside its block")
        if second != len(fresh.entries):
            failures.append(f"a journal entered a second time recorded {second} entries for a history that a fresh journal records with {len(fresh.entries)}")
    except Exception as ex:  # noqa: BLE001
        failures.append(f"re-entering a used journal raised {ex!r}"[:300])
    if journaling.get_current_journal() is not None:
        failures.append("a journal is still current after every block was left")
    # (f) objects that were locals/arguments of frames on the recorded call stacks die when the caller drops them
    def worker():
        g = ir.Graph([], [], nodes=[], name="gw")
        n = ir.Node("", "Op", inputs=[], num_outputs=1, name="w0")
        g.append(n)
        n.outputs[0].name = "wo"
        return id(g), id(n), id(n.outputs[0])
    with journaling.Journal() as jw:
        ids = worker()
        gc.collect()
        alive = sorted({e.operation for e in jw.entries if e.object_id in ids and e.ref is not None and e.ref() is not None})
        if alive:
            failures.append(f"journal entries keep IR objects alive after the function that created them returned (entries: {alive[:4]})")
    evaluations += 3
    known = {}
    kf = os.path.join(ROOT, "known_findings.json")
    if os.path.exists(kf):
        for k in json.load(open(kf)).get("open", []):
            if k.get("property") == "C20" and k.get("key"):
                known[k["key"]] = k
    new, known_lines = [], []
    for f in failures:
        hit = next((k for key, k in known.items() if key in f), None)
        if hit:
            if hit["what"] not in known_lines:
                known_lines.append(hit["what"])
        else:
            new.append(f)
    out = {"status": "violation" if new else "ok", "evaluations": evaluations, "distinct_nontrivial": len(distinct),
           "rule": "nesting depth 1..3 x exception position (exhaustive, closed space) + every single call of the C01 alphabet on 2 "
                   "initial states inside vs outside a journal + completed-only / weak-reference probes; bounded, not a proof",
           "exhaustive_part": "patch/restore configuration space (a)", "known_findings": known_lines, "samples": samples,
           "failures": new[:20], "wall_s": round(time.time() - t0, 2)}
    if new:
        os.makedirs(os.path.join(ROOT, "out", "replay"), exist_ok=True)
        path = os.path.join(ROOT, "out", "replay", "C20_bounded.json")
        json.dump({"property": "C20", "kind": "script",
                   "script": "import subprocess, sys, json\nr = subprocess.run([sys.executable, %r], capture_output=True, text=True)\n"
                             "d = json.loads(r.stdout.strip().splitlines()[-1])\nVIOLATED = d['status'] == 'violation'\nDETAIL = '\\n'.join(d.get('failures', []))\n"
                             % (os.path.abspath(__file__),), "failures": new[:20]}, open(path, "w"), indent=1)
        out["replay"] = path
    print(json.dumps(out))


if __name__ == "__main__":
    main()
