#!/bin/bash
# usage: tools_mut.sh <prop> <file-relative-to-src/onnx_ir> <sed-expr> [extra run args]
set -e
D=$(mktemp -d /tmp/mutXXXX); cp -r ${BASE:-/repo}/src $D/src
sed -i "$3" $D/src/onnx_ir/$2
if diff -rq ${BASE:-/repo}/src/onnx_ir/$2 $D/src/onnx_ir/$2 >/dev/null; then echo "MUTATION DID NOT APPLY"; rm -rf $D; exit 9; fi
cd /verif; PYVC_REPO=$D python3-vt -m pyvc.run $1 --no-bounded "${@:4}" 2>&1 | grep -E "VIOLATION|^C[0-9]+:|UNDECIDED|unsupported|CHECKER" | cut -c1-220 | sort | uniq | head -12
rm -rf $D
